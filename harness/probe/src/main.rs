//! Prints which module provides the scanner entry points in this build
//! variant (hook H2) and the results of a few parses, as one JSON line.
fn main() {
    let mut h = [httparse::EMPTY_HEADER; 8];
    let mut req = httparse::Request::new(&mut h);
    let buf = b"GET /0123456789012345678901234567890123456789/\xc3\xa9 HTTP/1.1\r\nHost: example.org\r\nX-Long-Header-Name-To-Cross-A-Block: some value that is long enough to cross thirty-two bytes\r\n\r\n";
    let r = req.parse(buf);
    let n = match r {
        Ok(httparse::Status::Complete(n)) => n as i64,
        Ok(httparse::Status::Partial) => -1,
        Err(_) => -2,
    };
    let mut h2 = [httparse::EMPTY_HEADER; 8];
    let mut resp = httparse::Response::new(&mut h2);
    let r2 = resp.parse(b"HTTP/1.1 200 OK\r\nA: b\x7f\r\n\r\n");
    let e2 = match r2 {
        Ok(httparse::Status::Complete(n)) => n as i64,
        Ok(httparse::Status::Partial) => -1,
        Err(_) => -2,
    };
    let sc: Vec<String> = (0u8..4)
        .map(|b| match httparse::verif::scan(b, 0, b"abcdefghijklmnopqrstuvwxyzabcdefghijklmnopqrstuvwxyz\x7fabc") {
            Some(x) => x.to_string(),
            None => "null".to_string(),
        })
        .collect();
    println!(
        "{{\"provider\":\"{}\",\"runtime\":{},\"req\":{},\"nheaders\":{},\"resp\":{},\"scan\":[{}],\"debug_assertions\":{}}}",
        httparse::verif::provider(),
        httparse::verif::runtime_feature(None).map(|x| x as i64).unwrap_or(-1),
        n,
        req.headers.len(),
        e2,
        sc.join(","),
        cfg!(debug_assertions)
    );
}
