//! simd/mod.rs of the NEON-emulation build: the NEON module is the provider,
//! its `core::arch::aarch64` import replaced by the software model in emu.rs.
mod swar;
pub mod emu;
mod neon;
pub use self::neon::*;

#[cfg(httparse_verif)]
#[allow(missing_docs)]
pub mod verif_scan {
    use crate::iter::Bytes;
    pub fn provider() -> &'static str {
        super::VERIF_PROVIDER
    }
    pub fn runtime_feature(_set: Option<u8>) -> Option<u8> {
        None
    }
    /// backend 0 = the (emulated) NEON provider, 1 = swar
    pub fn scan(backend: u8, class: u8, buf: &[u8]) -> Option<usize> {
        let mut bytes = Bytes::new(buf);
        match (backend, class) {
            (0, 0) => super::match_uri_vectored(&mut bytes),
            (0, 1) => super::match_header_value_vectored(&mut bytes),
            (0, 2) => super::match_header_name_vectored(&mut bytes),
            (1, 0) => super::swar::match_uri_vectored(&mut bytes),
            (1, 1) => super::swar::match_header_value_vectored(&mut bytes),
            (1, 2) => super::swar::match_header_name_vectored(&mut bytes),
            _ => return None,
        }
        Some(bytes.pos())
    }
}
