//! Bit-exact software model of the AArch64 NEON intrinsics src/simd/neon.rs uses
//! (Arm Architecture Reference Manual semantics), so that the NEON scanners can
//! be executed on this x86-64 host.  Trusted; kept deliberately literal.
#![allow(non_camel_case_types, clippy::missing_safety_doc)]

#[derive(Clone, Copy, Debug, PartialEq, Eq)]
pub struct uint8x16_t(pub [u8; 16]);
#[derive(Clone, Copy, Debug, PartialEq, Eq)]
pub struct uint64x2_t(pub [u64; 2]);

#[inline]
fn map1(a: uint8x16_t, f: impl Fn(u8) -> u8) -> uint8x16_t {
    let mut r = [0u8; 16];
    for i in 0..16 {
        r[i] = f(a.0[i]);
    }
    uint8x16_t(r)
}
#[inline]
fn map2(a: uint8x16_t, b: uint8x16_t, f: impl Fn(u8, u8) -> u8) -> uint8x16_t {
    let mut r = [0u8; 16];
    for i in 0..16 {
        r[i] = f(a.0[i], b.0[i]);
    }
    uint8x16_t(r)
}

/// LD1 {Vt.16B}, [Xn]: loads exactly 16 bytes
pub unsafe fn vld1q_u8(ptr: *const u8) -> uint8x16_t {
    #[cfg(httparse_verif)]
    crate::verif::neon_load(ptr as usize, 16);
    let mut r = [0u8; 16];
    core::ptr::copy_nonoverlapping(ptr, r.as_mut_ptr(), 16);
    uint8x16_t(r)
}
pub unsafe fn vdupq_n_u8(v: u8) -> uint8x16_t {
    uint8x16_t([v; 16])
}
pub unsafe fn vandq_u8(a: uint8x16_t, b: uint8x16_t) -> uint8x16_t {
    map2(a, b, |x, y| x & y)
}
pub unsafe fn vorrq_u8(a: uint8x16_t, b: uint8x16_t) -> uint8x16_t {
    map2(a, b, |x, y| x | y)
}
pub unsafe fn veorq_u8(a: uint8x16_t, b: uint8x16_t) -> uint8x16_t {
    map2(a, b, |x, y| x ^ y)
}
/// BIC: a AND NOT b
pub unsafe fn vbicq_u8(a: uint8x16_t, b: uint8x16_t) -> uint8x16_t {
    map2(a, b, |x, y| x & !y)
}
pub unsafe fn vmvnq_u8(a: uint8x16_t) -> uint8x16_t {
    map1(a, |x| !x)
}
/// USHR by immediate (1..=8)
pub unsafe fn vshrq_n_u8(a: uint8x16_t, n: i32) -> uint8x16_t {
    assert!((1..=8).contains(&n));
    map1(a, |x| if n == 8 { 0 } else { x >> n })
}
/// CMEQ: all ones where equal
pub unsafe fn vceqq_u8(a: uint8x16_t, b: uint8x16_t) -> uint8x16_t {
    map2(a, b, |x, y| if x == y { 0xff } else { 0 })
}
/// CMHS with swapped operands: all ones where a <= b (unsigned)
pub unsafe fn vcleq_u8(a: uint8x16_t, b: uint8x16_t) -> uint8x16_t {
    map2(a, b, |x, y| if x <= y { 0xff } else { 0 })
}
/// TBL with one table register: out-of-range indices give 0
pub unsafe fn vqtbl1q_u8(t: uint8x16_t, idx: uint8x16_t) -> uint8x16_t {
    map1(idx, |i| if (i as usize) < 16 { t.0[i as usize] } else { 0 })
}
/// little-endian reinterpretation
pub unsafe fn vreinterpretq_u64_u8(a: uint8x16_t) -> uint64x2_t {
    let mut lo = [0u8; 8];
    let mut hi = [0u8; 8];
    lo.copy_from_slice(&a.0[0..8]);
    hi.copy_from_slice(&a.0[8..16]);
    uint64x2_t([u64::from_le_bytes(lo), u64::from_le_bytes(hi)])
}
pub unsafe fn vgetq_lane_u64<const LANE: i32>(v: uint64x2_t) -> u64 {
    v.0[LANE as usize]
}
