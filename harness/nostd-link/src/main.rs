//! C19: with the `std` feature off, httparse must link into a program that has
//! neither std nor an allocator.  If the crate (or anything it pulls in) needed
//! `alloc`, rustc would refuse: "no global memory allocator found"; if it pulled
//! in std, the panic handler below would be a duplicate lang item.
#![no_std]
#![no_main]

#[panic_handler]
fn panic(_: &core::panic::PanicInfo) -> ! {
    loop {}
}

// the precompiled `core` refers to the unwinding personality; nothing unwinds here
#[no_mangle]
pub extern "C" fn rust_eh_personality() {}
#[no_mangle]
pub extern "C" fn _Unwind_Resume() -> ! {
    loop {}
}

#[no_mangle]
pub extern "C" fn _start() -> ! {
    let mut h = [httparse::EMPTY_HEADER; 4];
    let mut req = httparse::Request::new(&mut h);
    let r = req.parse(b"GET / HTTP/1.1\r\nA: b\r\n\r\n");
    let mut h2 = [httparse::EMPTY_HEADER; 4];
    let mut resp = httparse::Response::new(&mut h2);
    let r2 = httparse::ParserConfig::default().parse_response(&mut resp, b"HTTP/1.1 200 OK\r\n\r\n");
    let r3 = httparse::parse_chunk_size(b"ff\r\n");
    let r4 = httparse::parse_headers(b"a: b\r\n\r\n", &mut []);
    let code = (r.is_ok() as i32) + (r2.is_ok() as i32) + (r3.is_ok() as i32) + (r4.is_err() as i32);
    unsafe {
        core::arch::asm!("syscall", in("rax") 60, in("rdi") code, options(noreturn));
    }
}
