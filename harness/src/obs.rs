//! Executes one public entry point of httparse on a placed buffer and reports
//! what it saw.  No parsing logic lives here: only calls and observations.

use crate::vecs::*;
use std::alloc::{GlobalAlloc, Layout, System};
use std::cell::Cell;
use std::mem::MaybeUninit;
use std::panic::{catch_unwind, AssertUnwindSafe};

// ---------------------------------------------------------------- allocator
pub struct Counting;
thread_local! {
    static ALLOCS: Cell<u64> = const { Cell::new(0) };
}
unsafe impl GlobalAlloc for Counting {
    unsafe fn alloc(&self, l: Layout) -> *mut u8 {
        let _ = ALLOCS.try_with(|c| c.set(c.get() + 1));
        System.alloc(l)
    }
    unsafe fn dealloc(&self, p: *mut u8, l: Layout) {
        System.dealloc(p, l)
    }
    unsafe fn realloc(&self, p: *mut u8, l: Layout, n: usize) -> *mut u8 {
        let _ = ALLOCS.try_with(|c| c.set(c.get() + 1));
        System.realloc(p, l, n)
    }
    unsafe fn alloc_zeroed(&self, l: Layout) -> *mut u8 {
        let _ = ALLOCS.try_with(|c| c.set(c.get() + 1));
        System.alloc_zeroed(l)
    }
}
pub fn allocs() -> u64 {
    ALLOCS.with(|c| c.get())
}

// ---------------------------------------------------------------- arena
/// [PROT_NONE page][data pages][PROT_NONE page]
pub struct Arena {
    base: *mut u8,
    data: *mut u8,
    pub data_len: usize,
}
unsafe impl Send for Arena {}
pub const PAGE: usize = 4096;

#[derive(Clone, Copy, Debug, PartialEq, Eq)]
pub enum Place {
    /// last byte flush against the trailing unmapped page
    End,
    /// first byte right after the leading unmapped page
    Start,
    /// start address = 64-aligned + a, mapped memory on both sides
    Align(usize),
    /// a 4 KiB page boundary of the address space falls k bytes after the start (inside the
    /// buffer when k < len); mapped memory on both sides
    Straddle(usize),
}

impl Arena {
    pub fn new(data_len: usize) -> Arena {
        let data_len = (data_len + PAGE - 1) / PAGE * PAGE;
        unsafe {
            let total = data_len + 2 * PAGE;
            let p = libc::mmap(
                std::ptr::null_mut(),
                total,
                libc::PROT_READ | libc::PROT_WRITE,
                libc::MAP_PRIVATE | libc::MAP_ANONYMOUS,
                -1,
                0,
            );
            assert!(p != libc::MAP_FAILED, "mmap failed");
            let p = p as *mut u8;
            assert_eq!(libc::mprotect(p as *mut _, PAGE, libc::PROT_NONE), 0);
            assert_eq!(libc::mprotect(p.add(PAGE + data_len) as *mut _, PAGE, libc::PROT_NONE), 0);
            Arena { base: p, data: p.add(PAGE), data_len }
        }
    }

    /// Copy `bytes` into the arena.  The returned slice is valid until the next
    /// `place` on this arena (callers keep to that by construction).
    pub fn place<'a>(&'a self, bytes: &[u8], how: Place) -> &'a [u8] {
        assert!(bytes.len() + 128 <= self.data_len);
        unsafe {
            let dst = match how {
                Place::End => self.data.add(self.data_len - bytes.len()),
                Place::Start => self.data,
                Place::Align(a) => self.data.add(64 + (a % 64)),
                Place::Straddle(k) => self.data.add(2 * PAGE - (k % PAGE)),
            };
            // fill the neighbourhood with bytes that are in every class, so an
            // over-read that stays in mapped memory tends to change the result
            let lo = if (dst as usize) - (self.data as usize) >= 64 { dst.sub(64) } else { self.data };
            std::ptr::write_bytes(lo, b'a', dst as usize - lo as usize);
            let after = dst.add(bytes.len());
            let room = (self.data as usize + self.data_len) - after as usize;
            std::ptr::write_bytes(after, b'a', room.min(64));
            std::ptr::copy_nonoverlapping(bytes.as_ptr(), dst, bytes.len());
            std::slice::from_raw_parts(dst, bytes.len())
        }
    }
}
impl Drop for Arena {
    fn drop(&mut self) {
        unsafe {
            libc::munmap(self.base as *mut _, self.data_len + 2 * PAGE);
        }
    }
}

// ---------------------------------------------------------------- sentinels
pub const MAX_SLOTS: usize = 140100;
static SENT: [u8; MAX_SLOTS * 8 + 16] = [b'~'; MAX_SLOTS * 8 + 16];

pub fn sentinel(i: usize) -> httparse::Header<'static> {
    let n = &SENT[i * 8..i * 8 + 4];
    let v = &SENT[i * 8 + 4..i * 8 + 8];
    httparse::Header { name: unsafe { std::str::from_utf8_unchecked(n) }, value: v }
}
pub fn is_sentinel(h: &(Sl, Sl), i: usize) -> bool {
    let s = sentinel(i);
    h.0.ptr == s.name.as_ptr() as usize && h.0.len == 4 && h.1.ptr == s.value.as_ptr() as usize && h.1.len == 4
}
pub fn is_any_sentinel(h: &(Sl, Sl)) -> bool {
    let lo = SENT.as_ptr() as usize;
    h.0.ptr >= lo && h.0.ptr < lo + SENT.len()
}

// ---------------------------------------------------------------- observation
#[derive(Clone, Copy, Debug, PartialEq, Eq)]
pub struct Sl {
    pub ptr: usize,
    pub len: usize,
}
impl Sl {
    pub fn of(b: &[u8]) -> Sl {
        Sl { ptr: b.as_ptr() as usize, len: b.len() }
    }
    /// offset range relative to `buf` if fully inside it
    pub fn within(&self, buf: &[u8]) -> Option<(usize, usize)> {
        let b = buf.as_ptr() as usize;
        if self.ptr >= b && self.ptr + self.len <= b + buf.len() {
            Some((self.ptr - b, self.ptr - b + self.len))
        } else {
            None
        }
    }
    /// # Safety: only for slices known to point into live memory
    pub unsafe fn bytes<'a>(&self) -> &'a [u8] {
        std::slice::from_raw_parts(self.ptr as *const u8, self.len)
    }
}

#[derive(Clone, Debug, Default)]
pub struct Obs {
    pub st: u8,
    pub n: usize,
    pub err: u8,
    pub method: Option<Sl>,
    pub path: Option<Sl>,
    pub version: Option<u8>,
    pub code: Option<u16>,
    pub reason: Option<Sl>,
    pub size: u64,
    /// the `headers` slice as the caller sees it after the call
    pub exposed: Vec<(Sl, Sl)>,
    /// true if `exposed` still is the caller's whole array (same base, same len)
    pub exposed_is_whole: bool,
    /// every slot of the caller's array after the call
    pub slots: Vec<(Sl, Sl)>,
    pub canary_ok: bool,
    pub allocs: u64,
    pub panicked: bool,
    pub counters: httparse::verif::Counters,
}

pub const E_CFG_REQ: u8 = 0;
pub const E_CFG_REQ_UNINIT: u8 = 1;
pub const E_REQ_PARSE: u8 = 2;
pub const E_REQ_PARSE_UNINIT: u8 = 3;
pub const E_CFG_RESP: u8 = 4;
pub const E_CFG_RESP_UNINIT: u8 = 5;
pub const E_RESP_PARSE: u8 = 6;
pub const E_HEADERS: u8 = 7;
pub const E_CHUNK: u8 = 8;
pub const ENTRY_NAMES: [&str; 9] = [
    "ParserConfig::parse_request",
    "ParserConfig::parse_request_with_uninit_headers",
    "Request::parse",
    "Request::parse_with_uninit_headers",
    "ParserConfig::parse_response",
    "ParserConfig::parse_response_with_uninit_headers",
    "Response::parse",
    "parse_headers",
    "parse_chunk_size",
];

/// entry points of a kind; the `needs_default` ones ignore the configuration
pub fn entries_of(kind: u8, cfg_is_default: bool) -> &'static [u8] {
    match (kind, cfg_is_default) {
        (K_REQ, true) => &[E_CFG_REQ, E_CFG_REQ_UNINIT, E_REQ_PARSE, E_REQ_PARSE_UNINIT],
        (K_REQ, false) => &[E_CFG_REQ, E_CFG_REQ_UNINIT],
        (K_RESP, true) => &[E_CFG_RESP, E_CFG_RESP_UNINIT, E_RESP_PARSE],
        (K_RESP, false) => &[E_CFG_RESP, E_CFG_RESP_UNINIT],
        (K_HDRS, _) => &[E_HEADERS],
        _ => &[E_CHUNK],
    }
}
pub fn is_uninit_entry(e: u8) -> bool {
    e == E_CFG_REQ_UNINIT || e == E_REQ_PARSE_UNINIT || e == E_CFG_RESP_UNINIT
}

pub fn err_id_pub(e: httparse::Error) -> u8 {
    err_id(e)
}

fn err_id(e: httparse::Error) -> u8 {
    match e {
        httparse::Error::Token => 1,
        httparse::Error::Version => 2,
        httparse::Error::NewLine => 3,
        httparse::Error::Status => 4,
        httparse::Error::HeaderName => 5,
        httparse::Error::HeaderValue => 6,
        httparse::Error::TooManyHeaders => 7,
    }
}

fn status(o: &mut Obs, r: Result<httparse::Status<usize>, httparse::Error>) {
    match r {
        Ok(httparse::Status::Complete(n)) => {
            o.st = ST_C;
            o.n = n;
        }
        Ok(httparse::Status::Partial) => o.st = ST_P,
        Err(e) => {
            o.st = ST_E;
            o.err = err_id(e);
        }
    }
}

fn hsl(h: &httparse::Header) -> (Sl, Sl) {
    (Sl::of(h.name.as_bytes()), Sl::of(h.value))
}

/// Run one entry point.  `cap` is the real array length.  The array is
/// pre-filled with sentinels and bracketed by two canary slots.
pub fn run(entry: u8, cfgbits: u8, buf: &[u8], cap: usize) -> Obs {
    run_opt(entry, cfgbits, buf, cap, false)
}

/// the same call on a value that has been used before: an earlier parse of another buffer set
/// the start-line fields and returned Partial (so the array is whole again)
pub fn run_dirty(entry: u8, cfgbits: u8, buf: &[u8], cap: usize) -> Obs {
    run_opt(entry, cfgbits, buf, cap, true)
}

pub static PRE_REQ: &[u8] = b"PREVIOUS /stale/target HTTP/1.0\r\n";
pub static PRE_RESP: &[u8] = b"HTTP/1.0 299 Stale Reason\r\n";

fn run_opt(entry: u8, cfgbits: u8, buf: &[u8], cap: usize, dirty: bool) -> Obs {
    let mut o = Obs::default();
    let r = catch_unwind(AssertUnwindSafe(|| run_inner(entry, cfgbits, buf, cap, dirty)));
    match r {
        Ok(x) => x,
        Err(_) => {
            o.panicked = true;
            o
        }
    }
}

fn run_inner<'b>(entry: u8, cfgbits: u8, buf: &'b [u8], cap: usize, dirty: bool) -> Obs {
    let mut un2: Vec<MaybeUninit<httparse::Header<'b>>> = (0..4).map(|i| MaybeUninit::new(sentinel(i))).collect();
    assert!(cap + 2 <= MAX_SLOTS);
    let mut o = Obs::default();
    let cfg = make_config(cfgbits);
    // array with canaries: [canary][cap slots][canary]
    let mut arr: Vec<httparse::Header<'b>> = (0..cap + 2).map(sentinel).collect();
    let mut un: Vec<MaybeUninit<httparse::Header<'b>>> = Vec::new();
    if is_uninit_entry(entry) {
        un = (0..cap + 2).map(|i| MaybeUninit::new(sentinel(i))).collect();
    }
    let arr_base = arr.as_ptr() as usize;
    httparse::verif::reset_counters();
    let a0;
    let a1;
    match entry {
        E_CFG_REQ | E_REQ_PARSE | E_CFG_REQ_UNINIT | E_REQ_PARSE_UNINIT => {
            let uninit = is_uninit_entry(entry);
            // for the uninit entry points the value starts out over ANOTHER, non-empty array:
            // `headers` must be left untouched on a non-Complete result
            let mut empty: [httparse::Header<'b>; 3] = [sentinel(MAX_SLOTS - 1), sentinel(MAX_SLOTS - 2), sentinel(MAX_SLOTS - 3)];
            let other_base = empty.as_ptr() as usize;
            let mut req = if uninit {
                httparse::Request::new(&mut empty[..])
            } else {
                httparse::Request::new(&mut arr[1..cap + 1])
            };
            if dirty {
                let _ = match entry {
                    E_CFG_REQ => cfg.parse_request(&mut req, PRE_REQ),
                    E_REQ_PARSE => req.parse(PRE_REQ),
                    E_CFG_REQ_UNINIT => cfg.parse_request_with_uninit_headers(&mut req, PRE_REQ, &mut un2[..]),
                    _ => req.parse_with_uninit_headers(PRE_REQ, &mut un2[..]),
                };
                httparse::verif::reset_counters();
            }
            a0 = allocs();
            let r = match entry {
                E_CFG_REQ => cfg.parse_request(&mut req, buf),
                E_REQ_PARSE => req.parse(buf),
                E_CFG_REQ_UNINIT => cfg.parse_request_with_uninit_headers(&mut req, buf, &mut un[1..cap + 1]),
                _ => req.parse_with_uninit_headers(buf, &mut un[1..cap + 1]),
            };
            a1 = allocs();
            o.counters = httparse::verif::counters();
            status(&mut o, r);
            o.method = req.method.map(|m| Sl::of(m.as_bytes()));
            o.path = req.path.map(|m| Sl::of(m.as_bytes()));
            o.version = req.version;
            o.exposed = req.headers.iter().map(hsl).collect();
            o.exposed_is_whole = if uninit {
                req.headers.as_ptr() as usize == other_base && req.headers.len() == 3
            } else {
                req.headers.as_ptr() as usize == arr_base + std::mem::size_of::<httparse::Header>() && req.headers.len() == cap
            };
        }
        E_CFG_RESP | E_RESP_PARSE | E_CFG_RESP_UNINIT => {
            let uninit = is_uninit_entry(entry);
            let mut empty: [httparse::Header<'b>; 3] = [sentinel(MAX_SLOTS - 1), sentinel(MAX_SLOTS - 2), sentinel(MAX_SLOTS - 3)];
            let other_base = empty.as_ptr() as usize;
            let mut resp = if uninit {
                httparse::Response::new(&mut empty[..])
            } else {
                httparse::Response::new(&mut arr[1..cap + 1])
            };
            if dirty {
                let _ = match entry {
                    E_CFG_RESP => cfg.parse_response(&mut resp, PRE_RESP),
                    E_RESP_PARSE => resp.parse(PRE_RESP),
                    _ => cfg.parse_response_with_uninit_headers(&mut resp, PRE_RESP, &mut un2[..]),
                };
                httparse::verif::reset_counters();
            }
            a0 = allocs();
            let r = match entry {
                E_CFG_RESP => cfg.parse_response(&mut resp, buf),
                E_RESP_PARSE => resp.parse(buf),
                _ => cfg.parse_response_with_uninit_headers(&mut resp, buf, &mut un[1..cap + 1]),
            };
            a1 = allocs();
            o.counters = httparse::verif::counters();
            status(&mut o, r);
            o.version = resp.version;
            o.code = resp.code;
            o.reason = resp.reason.map(|m| Sl::of(m.as_bytes()));
            o.exposed = resp.headers.iter().map(hsl).collect();
            o.exposed_is_whole = if uninit {
                resp.headers.as_ptr() as usize == other_base && resp.headers.len() == 3
            } else {
                resp.headers.as_ptr() as usize == arr_base + std::mem::size_of::<httparse::Header>() && resp.headers.len() == cap
            };
        }
        E_HEADERS => {
            a0 = allocs();
            let r = httparse::parse_headers(buf, &mut arr[1..cap + 1]);
            a1 = allocs();
            o.counters = httparse::verif::counters();
            match r {
                Ok(httparse::Status::Complete((n, hs))) => {
                    o.st = ST_C;
                    o.n = n;
                    o.exposed = hs.iter().map(hsl).collect();
                }
                Ok(httparse::Status::Partial) => o.st = ST_P,
                Err(e) => {
                    o.st = ST_E;
                    o.err = err_id(e);
                }
            }
            o.exposed_is_whole = true;
        }
        _ => {
            a0 = allocs();
            let r = httparse::parse_chunk_size(buf);
            a1 = allocs();
            o.counters = httparse::verif::counters();
            match r {
                Ok(httparse::Status::Complete((n, size))) => {
                    o.st = ST_C;
                    o.n = n;
                    o.size = size;
                }
                Ok(httparse::Status::Partial) => o.st = ST_P,
                Err(_) => {
                    o.st = ST_E;
                    o.err = 8;
                }
            }
            o.exposed_is_whole = true;
        }
    }
    o.allocs = a1 - a0;
    // whole array after the call (sentinel values are valid headers, so reading
    // every slot of the "uninit" array is defined)
    if is_uninit_entry(entry) {
        let all: Vec<(Sl, Sl)> = un.iter().map(|m| hsl(unsafe { &*m.as_ptr() })).collect();
        o.canary_ok = is_sentinel(&all[0], 0) && is_sentinel(&all[cap + 1], cap + 1);
        o.slots = all[1..cap + 1].to_vec();
    } else {
        let all: Vec<(Sl, Sl)> = arr.iter().map(hsl).collect();
        o.canary_ok = is_sentinel(&all[0], 0) && is_sentinel(&all[cap + 1], cap + 1);
        o.slots = all[1..cap + 1].to_vec();
    }
    o
}
