//! Trace drivers (implementation -> specification direction): run the real
//! parser and write ndjson event logs that TLC validates against the trace
//! specifications (TraceOps, TraceWork, TraceFeed, TraceSession, TraceRace,
//! TraceScan).  Nothing here judges anything.

use hv::obs::*;
use hv::vecs::*;
use rand::rngs::StdRng;
use rand::{Rng, SeedableRng};
use std::io::{BufRead, BufWriter, Write};

fn arg(args: &[String], name: &str) -> Option<String> {
    args.iter().position(|a| a == name).and_then(|i| args.get(i + 1).cloned())
}

/// inputs: sampled from vector files (every `stride`-th line)
fn sample_vectors(files: &[String], stride: usize, offset: usize, max: usize) -> Vec<Vector> {
    let mut out = Vec::new();
    let mut i = 0usize;
    for f in files {
        let fh = match std::fs::File::open(f) {
            Ok(x) => x,
            Err(_) => continue,
        };
        for line in std::io::BufReader::new(fh).lines().map_while(Result::ok) {
            i += 1;
            if (i + offset) % stride != 0 {
                continue;
            }
            if let Ok(v) = Vector::parse(&line) {
                out.push(v);
                if out.len() >= max {
                    return out;
                }
            }
        }
    }
    out
}

fn entry_of(kind: u8) -> u8 {
    match kind {
        K_REQ => E_CFG_REQ,
        K_RESP => E_CFG_RESP,
        K_HDRS => E_HEADERS,
        _ => E_CHUNK,
    }
}

fn cap_of(v: &Vector) -> usize {
    if v.cap >= INF {
        v.hdrs.len() + 8
    } else {
        v.cap as usize
    }
}

/// random grammar-derived message (request or response) with optional mutation
fn random_message(rng: &mut StdRng, kind: u8) -> Vec<u8> {
    let mut b = Vec::new();
    let tok = |rng: &mut StdRng, n: usize| -> Vec<u8> {
        const T: &[u8] = b"abcdefghijklmnopqrstuvwxyzABCDEFGHIJKLMNOPQRSTUVWXYZ0123456789-_.!#$%&'*+^`|~";
        (0..n).map(|_| T[rng.gen_range(0..T.len())]).collect()
    };
    if kind == K_REQ {
        let m: &[&[u8]] = &[b"GET", b"POST", b"PUT", b"OPTIONS", b"X-y"];
        b.extend_from_slice(m[rng.gen_range(0..m.len())]);
        b.push(b' ');
        b.push(b'/');
        let n = rng.gen_range(0..80);
        for _ in 0..n {
            let c = rng.gen_range(0x21u8..0x7f);
            b.push(c);
        }
        if rng.gen_bool(0.2) {
            b.extend_from_slice("é✓".as_bytes());
        }
        b.extend_from_slice(b" HTTP/1.");
        b.push(if rng.gen_bool(0.5) { b'0' } else { b'1' });
    } else {
        b.extend_from_slice(b"HTTP/1.");
        b.push(if rng.gen_bool(0.5) { b'0' } else { b'1' });
        b.push(b' ');
        for _ in 0..3 {
            b.push(b'0' + rng.gen_range(0..10));
        }
        if rng.gen_bool(0.8) {
            b.push(b' ');
            let n = rng.gen_range(0..20);
            for _ in 0..n {
                b.push(rng.gen_range(0x20u8..0x7f));
            }
        }
    }
    b.extend_from_slice(if rng.gen_bool(0.7) { b"\r\n" } else { b"\n" });
    let nh = rng.gen_range(0..8);
    for _ in 0..nh {
        let nlen = rng.gen_range(1..40);
        b.extend(tok(rng, nlen));
        b.push(b':');
        for _ in 0..rng.gen_range(0..3) {
            b.push(if rng.gen_bool(0.8) { b' ' } else { b'\t' });
        }
        let n = rng.gen_range(0..90);
        for _ in 0..n {
            let c = if rng.gen_bool(0.05) { rng.gen_range(0x80u8..=0xff) } else { rng.gen_range(0x20u8..0x7f) };
            b.push(c);
        }
        b.extend_from_slice(if rng.gen_bool(0.7) { b"\r\n" } else { b"\n" });
        if rng.gen_bool(0.1) {
            b.extend_from_slice(b"  folded\r\n");
        }
    }
    b.extend_from_slice(if rng.gen_bool(0.7) { b"\r\n" } else { b"\n" });
    if rng.gen_bool(0.3) {
        b.extend_from_slice(b"body bytes");
    }
    if rng.gen_bool(0.25) && !b.is_empty() {
        let i = rng.gen_range(0..b.len());
        b[i] = [0u8, 1, 9, 10, 13, 32, 58, 127, 128, 255][rng.gen_range(0..10)];
    }
    b
}

// ---------------------------------------------------------------- ops
/// one cursor-operation trace per call, run-length-encoding next() runs
fn cmd_ops(args: &[String]) {
    let out = arg(args, "--out").unwrap();
    let seed: u64 = arg(args, "--seed").and_then(|s| s.parse().ok()).unwrap_or(0);
    let count: usize = arg(args, "--count").and_then(|s| s.parse().ok()).unwrap_or(1000);
    let shards: usize = arg(args, "--shards").and_then(|s| s.parse().ok()).unwrap_or(1);
    let stride: usize = arg(args, "--stride").and_then(|s| s.parse().ok()).unwrap_or(997);
    let backend: Option<u8> = arg(args, "--force-backend").and_then(|s| s.parse().ok());
    let files: Vec<String> = args.iter().filter(|a| a.ends_with(".vec")).cloned().collect();
    if let Some(b) = backend {
        httparse::verif::runtime_feature(Some(b));
    }
    let mut rng = StdRng::seed_from_u64(seed);
    let mut inputs: Vec<(u8, u8, usize, Vec<u8>)> = Vec::new();
    for v in sample_vectors(&files, stride, seed as usize, count / 2) {
        let c = cap_of(&v);
        inputs.push((v.kind, v.cfg, c, v.buf));
    }
    while inputs.len() < count {
        let kind = if rng.gen_bool(0.5) { K_REQ } else { K_RESP };
        let m = random_message(&mut rng, kind);
        let cut = if rng.gen_bool(0.3) { rng.gen_range(0..=m.len()) } else { m.len() };
        inputs.push((kind, rng.gen_range(0..128u8) & relevant_mask(kind), rng.gen_range(0..12), m[..cut].to_vec()));
    }
    let arena = Arena::new(1 << 20);
    let mut ws: Vec<BufWriter<std::fs::File>> = (0..shards)
        .map(|i| BufWriter::new(std::fs::File::create(format!("{}.{}", out, i)).unwrap()))
        .collect();
    let mut total_events = 0u64;
    for (ci, (kind, cfg, cap, data)) in inputs.iter().enumerate() {
        let w = &mut ws[ci % shards];
        let buf = arena.place(data, if ci % 2 == 0 { Place::End } else { Place::Align(ci % 32) });
        let base = buf.as_ptr() as usize;
        httparse::verif::log_enable(true);
        let _ = httparse::verif::take_log();
        let o = run(entry_of(*kind), *cfg, buf, *cap);
        httparse::verif::log_enable(false);
        let log = httparse::verif::take_log();
        writeln!(w, "{{\"ev\":\"call\",\"kind\":{},\"len\":{},\"id\":{}}}", kind, data.len(), ci).unwrap();
        total_events += 1;
        let rel = |x: usize| -> i64 {
            let d = x as i64 - base as i64;
            if d < -1000 || d > data.len() as i64 + 1000 { -1 } else { d }
        };
        let mut i = 0;
        while i < log.len() {
            let op = log[i];
            // NEXT immediately followed by its ADVANCE(1): compress runs
            if op.code == httparse::verif::OP_NEXT && i + 1 < log.len() && log[i + 1].code == httparse::verif::OP_ADVANCE && log[i + 1].arg == 1 && log[i + 1].cursor == op.cursor {
                let mut k = 1usize;
                let mut j = i + 2;
                while j + 1 < log.len()
                    && log[j].code == httparse::verif::OP_NEXT
                    && log[j + 1].code == httparse::verif::OP_ADVANCE
                    && log[j + 1].arg == 1
                    && log[j].cursor == op.cursor + k
                    && log[j + 1].cursor == op.cursor + k
                    && log[j].start == op.start
                    && log[j].end == op.end
                {
                    k += 1;
                    j += 2;
                }
                writeln!(w, "{{\"ev\":\"nexts\",\"n\":{},\"s\":{},\"c\":{},\"e\":{}}}", k, rel(op.start), rel(op.cursor), rel(op.end)).unwrap();
                total_events += 1;
                i = j;
                continue;
            }
            writeln!(w, "{{\"ev\":\"op\",\"code\":{},\"arg\":{},\"s\":{},\"c\":{},\"e\":{}}}", op.code,
                if op.code == httparse::verif::OP_SET_CURSOR { rel(op.arg) } else { op.arg.min(1 << 30) as i64 },
                rel(op.start), rel(op.cursor), rel(op.end)).unwrap();
            total_events += 1;
            i += 1;
        }
        writeln!(w, "{{\"ev\":\"ret\",\"st\":{},\"n\":{},\"panicked\":{}}}", o.st, o.n, o.panicked).unwrap();
        total_events += 1;
    }
    println!("{{\"calls\":{},\"events\":{}}}", inputs.len(), total_events);
}

// ---------------------------------------------------------------- work
fn adversarial(family: usize, len: usize, kind: u8) -> (Vec<u8>, u8) {
    // returns (input, cfg bits)
    let start: &[u8] = if kind == K_REQ { b"GET / HTTP/1.1\r\n" } else { b"HTTP/1.1 200 OK\r\n" };
    let mut b = start.to_vec();
    let all_req = 1 | 16 | 32;
    let all_resp = 2 | 4 | 8 | 16 | 64;
    let all = if kind == K_REQ { all_req } else { all_resp };
    match family {
        0 => {
            // one header with a long run of folded lines
            b.extend_from_slice(b"a: x\r\n");
            while b.len() + 8 < len { b.extend_from_slice(b" y\r\n"); }
        }
        1 => {
            // long run of ignored (invalid) lines
            while b.len() + 8 < len { b.extend_from_slice(b"bad line\x01\r\n"); }
        }
        2 => {
            // one value consisting of whitespace
            b.extend_from_slice(b"a:");
            while b.len() + 8 < len { b.push(b' '); }
        }
        3 => {
            // value of HTABs (SWAR block stops at every byte)
            b.extend_from_slice(b"a: v");
            while b.len() + 8 < len { b.push(b'\t'); }
        }
        4 => {
            // near-miss blocks: a stop byte every 7 bytes in a value, ignored
            b.extend_from_slice(b"a: ");
            while b.len() + 8 < len { b.extend_from_slice(b"xxxxxx\x7f"); }
        }
        5 => {
            // many short headers
            while b.len() + 8 < len { b.extend_from_slice(b"a:b\n"); }
        }
        6 => {
            // long target / long reason
            b.clear();
            if kind == K_REQ {
                b.extend_from_slice(b"GET /");
                while b.len() + 16 < len { b.push(b'a'); }
            } else {
                b.extend_from_slice(b"HTTP/1.1 200 ");
                while b.len() + 16 < len { b.push(b'r'); }
            }
        }
        7 => {
            // leading empty lines
            b.clear();
            while b.len() + 32 < len { b.extend_from_slice(b"\r\n"); }
            b.extend_from_slice(start);
        }
        8 => {
            // long header name
            while b.len() + 8 < len { b.push(b'n'); }
        }
        9 => {
            // whitespace before the first header (option S) then spaces after names (A)
            while b.len() + 8 < len / 2 { b.push(b' '); }
            b.extend_from_slice(b"a");
            while b.len() + 8 < len { b.push(b' '); }
        }
        10 => {
            // spaces between request-line / status-line elements (options Mq / Mr)
            b.clear();
            if kind == K_REQ {
                b.extend_from_slice(b"GET");
                while b.len() + 32 < len / 2 { b.push(b' '); }
                b.extend_from_slice(b"/");
                while b.len() + 32 < len { b.push(b' '); }
                b.extend_from_slice(b"HTTP/1.1\r\n\r\n");
            } else {
                b.extend_from_slice(b"HTTP/1.1");
                while b.len() + 32 < len / 2 { b.push(b' '); }
                b.extend_from_slice(b"200");
                while b.len() + 32 < len { b.push(b' '); }
                b.extend_from_slice(b"OK\r\n\r\n");
            }
        }
        12 => {
            // one value with a long whitespace run in its middle (trim must not rescan)
            b.extend_from_slice(b"a: x");
            while b.len() + 16 < len { b.push(b' '); }
            b.extend_from_slice(b"y\r\n");
        }
        13 => {
            // one long ignored line, then many short ignored lines with CR LF ends
            b.extend_from_slice(b"bad\x01");
            while b.len() + 16 < len / 2 { b.push(b'z'); }
            b.extend_from_slice(b"\r\n");
            while b.len() + 16 < len { b.extend_from_slice(b"q\x7f\r\n"); }
        }
        15 => {
            // a huge number of very short ignored lines with bare-LF ends and no CR anywhere
            while b.len() + 8 < len { b.extend_from_slice(b"z\x01\n"); }
        }
        16 => {
            // bare-LF head: many short valid headers (more than the array holds is fine), no CR anywhere
            b.clear();
            b.extend_from_slice(if kind == K_REQ { &b"GET / HTTP/1.1\n"[..] } else { &b"HTTP/1.1 200 OK\n"[..] });
            while b.len() + 8 < len { b.extend_from_slice(b"h: v\n"); }
        }
        17 => {
            // values with many interior HTABs (a word-at-a-time scanner stops at each), bare LF
            b.extend_from_slice(b"a: ");
            while b.len() + 8 < len { b.extend_from_slice(b"x\ty\t"); }
            b.extend_from_slice(b"z\n");
        }
        18 | 19 => {
            // long target / reason made of short multi-byte UTF-8 sequences, separated by ASCII
            // bytes (18) or back to back (19): validation work per non-ASCII run must not grow
            // with what follows it
            b.clear();
            b.extend_from_slice(if kind == K_REQ { &b"GET /"[..] } else { &b"HTTP/1.1 200 "[..] });
            while b.len() + 16 < len {
                if family == 18 { b.push(b'a'); }
                b.extend_from_slice(&[0xC3, 0xA9]);
            }
            // the target is validated once its delimiter has been seen
            if kind == K_REQ { b.extend_from_slice(b" HTTP/1.1\r\nA: b"); }
        }
        21 => {
            // header values alternating ASCII and obs-text bytes, several headers
            while b.len() + 600 < len {
                b.extend_from_slice(b"n: ");
                for _ in 0..256 { b.extend_from_slice(&[b'v', 0xE9]); }
                b.extend_from_slice(b"\r\n");
            }
        }
        14 => {
            // folded value whose continuation lines are mostly trailing whitespace
            b.extend_from_slice(b"a: x\r\n");
            while b.len() + 40 < len { b.extend_from_slice(b" y                              \r\n"); }
        }
        _ => {
            // folded empty values
            b.extend_from_slice(b"a:\r\n");
            while b.len() + 8 < len { b.extend_from_slice(b" \r\n"); }
        }
    }
    (b, all)
}

fn cmd_work(args: &[String]) {
    let out = arg(args, "--out").unwrap();
    let sizes: Vec<usize> = arg(args, "--sizes").unwrap_or("4096,65536".into()).split(',').map(|s| s.parse().unwrap()).collect();
    let backend: Option<u8> = arg(args, "--force-backend").and_then(|s| s.parse().ok());
    if let Some(b) = backend {
        httparse::verif::runtime_feature(Some(b));
    }
    let mut w = BufWriter::new(std::fs::File::create(&out).unwrap());
    let arena = Arena::new((2 << 20) + 8192);
    let mut n = 0;
    for &len in &sizes {
        for fam in (0..20).chain([21usize]) {
            for kind in [K_REQ, K_RESP] {
                let (data, all) = adversarial(fam, len, kind);
                for cfg in [0u8, all] {
                    for cap in [0usize, 4, 200, 30000] {
                        for complete in [false, true] {
                            let mut d = data.clone();
                            if complete {
                                d.extend_from_slice(b"\r\n\r\n");
                            }
                            let buf = arena.place(&d, Place::End);
                            let t0 = std::time::Instant::now();
                            let o = run(entry_of(kind), cfg, buf, cap);
                            let mut el = t0.elapsed().as_nanos() as u64;
                            // timing is a sensor with a huge margin; take the best of three to damp scheduler noise
                            for _ in 0..2 {
                                let t1 = std::time::Instant::now();
                                let _ = run(entry_of(kind), cfg, buf, cap);
                                el = el.min(t1.elapsed().as_nanos() as u64);
                            }
                            let c = o.counters;
                            writeln!(w, "{{\"ev\":\"work\",\"family\":{},\"kind\":{},\"cfg\":{},\"cap\":{},\"len\":{},\"st\":{},\"cursors\":{},\"travel\":{},\"back\":{},\"peeks\":{},\"peek_bytes\":{},\"loads\":{},\"ops\":{},\"us\":{},\"panicked\":{}}}",
                                fam, kind, cfg, cap, d.len(), o.st, c.cursors, c.travel, c.back, c.peeks, c.peek_bytes, c.loads, c.ops, el / 1000, o.panicked).unwrap();
                            n += 1;
                        }
                    }
                }
            }
        }
        // header block and chunk size entry points
        for fam in [0usize, 5, 8] {
            let (data, _) = adversarial(fam, len, K_REQ);
            let d = &data[16..];
            let buf = arena.place(d, Place::End);
            let o = run(E_HEADERS, 0, buf, 200);
            let c = o.counters;
            writeln!(w, "{{\"ev\":\"work\",\"family\":{},\"kind\":2,\"cfg\":0,\"cap\":200,\"len\":{},\"st\":{},\"cursors\":{},\"travel\":{},\"back\":{},\"peeks\":{},\"peek_bytes\":{},\"loads\":{},\"ops\":{},\"us\":0,\"panicked\":{}}}",
                fam, d.len(), o.st, c.cursors, c.travel, c.back, c.peeks, c.peek_bytes, c.loads, c.ops, o.panicked).unwrap();
            n += 1;
        }
        let mut d = b"1f;".to_vec();
        while d.len() + 8 < len { d.push(b'x'); }
        let buf = arena.place(&d, Place::End);
        let o = run(E_CHUNK, 0, buf, 0);
        let c = o.counters;
        writeln!(w, "{{\"ev\":\"work\",\"family\":20,\"kind\":3,\"cfg\":0,\"cap\":0,\"len\":{},\"st\":{},\"cursors\":{},\"travel\":{},\"back\":{},\"peeks\":{},\"peek_bytes\":{},\"loads\":{},\"ops\":{},\"us\":0,\"panicked\":{}}}",
            d.len(), o.st, c.cursors, c.travel, c.back, c.peeks, c.peek_bytes, c.loads, c.ops, o.panicked).unwrap();
        n += 1;
    }
    println!("{{\"calls\":{}}}", n);
}

fn main() {
    let args: Vec<String> = std::env::args().collect();
    std::panic::set_hook(Box::new(|_| {}));
    match args.get(1).map(|s| s.as_str()) {
        Some("ops") => cmd_ops(&args),
        Some("work") => cmd_work(&args),
        Some("feed") => hv::drivers::cmd_feed(&args),
        Some("session") => hv::drivers::cmd_session(&args),
        Some("race") => hv::drivers::cmd_race(&args),
        Some("scan") => hv::drivers::cmd_scan(&args),
        Some("call") => hv::drivers::cmd_call(&args),
        Some("config") => hv::drivers::cmd_config(&args),
        _ => {
            eprintln!("usage: driver ops|work|feed|session|race|scan ...");
            std::process::exit(2);
        }
    }
}
