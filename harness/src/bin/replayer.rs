//! Reads TLC-generated vectors (stdin or files), pushes each through the real
//! parser under the expansions of the selected mode, judges every observation
//! against the vector, prints `MISMATCH {json}` lines and a final `SUMMARY {json}`.
//!
//! exit 0 = ran to the end (mismatches are reported in the output, the check
//! driver turns them into VIOLATION lines); 70 = the code under test crashed
//! (candidates on stderr as `CRASH-CANDIDATE <line>`); 71 = it hung.

use hv::replay::*;
use hv::vecs::*;
use std::io::{BufRead, Write};
use std::sync::atomic::{AtomicPtr, AtomicU64, AtomicUsize, Ordering};
use std::sync::mpsc::sync_channel;
use std::sync::{Arc, Mutex};

const MAXT: usize = 64;
static CUR_PTR: [AtomicPtr<u8>; MAXT] = [const { AtomicPtr::new(std::ptr::null_mut()) }; MAXT];
static CUR_LEN: [AtomicUsize; MAXT] = [const { AtomicUsize::new(0) }; MAXT];
static BEAT: [AtomicU64; MAXT] = [const { AtomicU64::new(0) }; MAXT];
static BUSY: [AtomicU64; MAXT] = [const { AtomicU64::new(0) }; MAXT];

fn dump_candidates(tag: &[u8], only: Option<usize>) {
    for t in 0..MAXT {
        if let Some(o) = only {
            if o != t {
                continue;
            }
        }
        let p = CUR_PTR[t].load(Ordering::SeqCst);
        let l = CUR_LEN[t].load(Ordering::SeqCst);
        if !p.is_null() && l > 0 {
            unsafe {
                libc::write(2, tag.as_ptr() as *const _, tag.len());
                libc::write(2, p as *const _, l);
                libc::write(2, b"\n".as_ptr() as *const _, 1);
            }
        }
    }
}

extern "C" fn on_fault(sig: i32) {
    let msg = b"FAULT signal ";
    unsafe {
        libc::write(2, msg.as_ptr() as *const _, msg.len());
        let d = [b'0' + (sig / 10) as u8, b'0' + (sig % 10) as u8, b'\n'];
        libc::write(2, d.as_ptr() as *const _, 3);
    }
    dump_candidates(b"CRASH-CANDIDATE ", None);
    unsafe { libc::_exit(70) }
}

fn install_handlers() {
    unsafe {
        // alternate stack so a stack overflow is reported too
        let ss = libc::stack_t { ss_sp: libc::malloc(1 << 16), ss_flags: 0, ss_size: 1 << 16 };
        libc::sigaltstack(&ss, std::ptr::null_mut());
        for s in [libc::SIGSEGV, libc::SIGBUS, libc::SIGILL, libc::SIGFPE, libc::SIGABRT] {
            let mut sa: libc::sigaction = std::mem::zeroed();
            sa.sa_sigaction = on_fault as usize;
            sa.sa_flags = libc::SA_ONSTACK;
            libc::sigaction(s, &sa, std::ptr::null_mut());
        }
    }
}

fn jstr(s: &str) -> String {
    serde_json::to_string(s).unwrap()
}

fn main() {
    let args: Vec<String> = std::env::args().collect();
    let mut modes = 0u32;
    let mut threads = 8usize;
    let mut force: Option<u8> = None;
    let mut files: Vec<String> = Vec::new();
    let mut big = false;
    let mut hang_secs = 30u64;
    let mut kinds: Option<Vec<u8>> = None;
    let mut hashes_out: Option<String> = None;
    if args.get(1).map(|s| s.as_str()) == Some("--merge") {
        // distinct count over hash files written by earlier runs
        let mut all: Vec<u64> = Vec::new();
        for f in &args[2..] {
            if let Ok(b) = std::fs::read(f) {
                all.extend(b.chunks_exact(8).map(|c| u64::from_le_bytes([c[0], c[1], c[2], c[3], c[4], c[5], c[6], c[7]])));
            }
        }
        all.sort_unstable();
        all.dedup();
        println!("{}", all.len());
        return;
    }
    let mut i = 1;
    while i < args.len() {
        match args[i].as_str() {
            "--mode" => { modes = parse_modes(&args[i + 1]); i += 1 }
            "--threads" => { threads = args[i + 1].parse().unwrap(); i += 1 }
            "--force-backend" => { force = Some(args[i + 1].parse().unwrap()); i += 1 }
            "--big" => big = true,
            "--hashes" => { hashes_out = Some(args[i + 1].clone()); i += 1 }
            "--kinds" => { kinds = Some(args[i + 1].split(',').filter(|x| !x.is_empty()).map(|x| x.parse().unwrap()).collect()); i += 1 }
            "--hang-secs" => { hang_secs = args[i + 1].parse().unwrap(); i += 1 }
            x => files.push(x.to_string()),
        }
        i += 1;
    }
    let threads = threads.min(MAXT).max(1);
    std::panic::set_hook(Box::new(|_| {}));
    install_handlers();
    let _ = hv::judge::classes();
    let mut backend_note = String::from("default");
    if let Some(f) = force {
        match httparse::verif::runtime_feature(Some(f)) {
            Some(x) => backend_note = format!("forced runtime backend id {}", x),
            None => backend_note = "no runtime dispatch in this build".into(),
        }
    }

    let (tx, rx) = sync_channel::<Vec<(u64, String)>>(threads * 4);
    let rx = Arc::new(Mutex::new(rx));
    let mut handles = Vec::new();
    for t in 0..threads {
        let rx = rx.clone();
        let kinds = kinds.clone();
        handles.push(std::thread::spawn(move || {
            let mut ctx = Ctx::new(modes, big);
            let mut bad_lines = 0u64;
            loop {
                let batch = { rx.lock().unwrap().recv() };
                let batch = match batch { Ok(b) => b, Err(_) => break };
                for (idx, line) in batch {
                    CUR_PTR[t].store(line.as_ptr() as *mut u8, Ordering::SeqCst);
                    CUR_LEN[t].store(line.len(), Ordering::SeqCst);
                    BUSY[t].store(1, Ordering::SeqCst);
                    match Vector::parse(&line) {
                        Ok(v) => {
                            if kinds.as_ref().map(|k| k.contains(&v.kind)).unwrap_or(true) {
                                ctx.process(&v, strip_line(&line).unwrap_or(&line), idx)
                            }
                        }
                        Err(_) => bad_lines += 1,
                    }
                    BEAT[t].fetch_add(1, Ordering::SeqCst);
                    BUSY[t].store(0, Ordering::SeqCst);
                    CUR_LEN[t].store(0, Ordering::SeqCst);
                }
            }
            (ctx.stats, ctx.violations, bad_lines, ctx.hashes)
        }));
    }
    // watchdog
    std::thread::spawn(move || {
        let mut last = [0u64; MAXT];
        let mut stale = [0u64; MAXT];
        loop {
            std::thread::sleep(std::time::Duration::from_secs(1));
            for t in 0..MAXT {
                let b = BEAT[t].load(Ordering::SeqCst);
                if BUSY[t].load(Ordering::SeqCst) == 1 && b == last[t] {
                    stale[t] += 1;
                    if stale[t] >= hang_secs {
                        dump_candidates(b"HANG-CANDIDATE ", Some(t));
                        unsafe { libc::_exit(71) }
                    }
                } else {
                    stale[t] = 0;
                }
                last[t] = b;
            }
        }
    });

    let mut idx = 0u64;
    let mut other_lines = 0u64;
    let mut feed = |r: &mut dyn BufRead| {
        let mut batch = Vec::with_capacity(1024);
        let mut line = String::new();
        loop {
            line.clear();
            match r.read_line(&mut line) {
                Ok(0) => break,
                Ok(_) => {}
                Err(_) => continue,
            }
            if strip_line(&line).is_none() {
                other_lines += 1;
                continue;
            }
            batch.push((idx, line.trim_end().to_string()));
            idx += 1;
            if batch.len() >= 1024 {
                tx.send(std::mem::replace(&mut batch, Vec::with_capacity(1024))).unwrap();
            }
        }
        if !batch.is_empty() {
            tx.send(batch).unwrap();
        }
    };
    if files.is_empty() {
        let stdin = std::io::stdin();
        let mut l = stdin.lock();
        feed(&mut l);
    } else {
        for f in &files {
            let fh = std::fs::File::open(f).unwrap_or_else(|e| panic!("{}: {}", f, e));
            let mut r = std::io::BufReader::with_capacity(1 << 20, fh);
            feed(&mut r);
        }
    }
    drop(feed);
    drop(tx);
    let mut total = Stats::default();
    let mut viol: Vec<Violation> = Vec::new();
    let mut bad = 0;
    let mut hashes: Vec<u64> = Vec::new();
    for h in handles {
        let (s, v, b, hs) = h.join().unwrap();
        total.merge(&s);
        viol.extend(v);
        bad += b;
        hashes.extend(hs);
    }
    if let Some(p) = hashes_out {
        hashes.sort_unstable();
        hashes.dedup();
        let mut bytes = Vec::with_capacity(hashes.len() * 8);
        for h in &hashes {
            bytes.extend_from_slice(&h.to_le_bytes());
        }
        let _ = std::fs::write(p, bytes);
    }
    let out = std::io::stdout();
    let mut out = out.lock();
    for v in viol.iter().take(500) {
        writeln!(out, "MISMATCH {{\"prop\":{},\"msg\":{},\"entry\":{},\"context\":{},\"vector\":{}}}",
            jstr(v.prop), jstr(&v.msg), jstr(v.entry), jstr(&v.context), jstr(&v.line)).unwrap();
    }
    let m = |b: &std::collections::BTreeMap<String, u64>| serde_json::to_string(b).unwrap();
    writeln!(out, "SUMMARY {{\"vectors\":{},\"nontrivial\":{},\"observations\":{},\"by_kind_verdict\":{},\"by_phase\":{},\"by_err\":{},\"tags\":{},\"drift\":{},\"drift_samples\":{},\"max_len\":{},\"completions_run\":{},\"extensions_run\":{},\"cfg_expansions\":{},\"entry_expansions\":{},\"placements\":{},\"embed_run\":{},\"caplaw_run\":{},\"samples\":{},\"unparsed_lines\":{},\"other_lines\":{},\"backend\":{},\"provider\":{},\"debug_assertions\":{},\"mismatch_digest\":\"{:016x}\"}}",
        total.vectors, total.nontrivial, total.observations, m(&total.by_kind_verdict), m(&total.by_phase), m(&total.by_err), m(&total.tags),
        total.drift, serde_json::to_string(&total.drift_samples).unwrap(), total.max_len, total.completions_run, total.extensions_run,
        total.cfg_expansions, total.entry_expansions, total.placements, total.embed_run, total.caplaw_run,
        serde_json::to_string(&total.samples).unwrap(), bad, other_lines, jstr(&backend_note), jstr(httparse::verif::provider()), cfg!(debug_assertions), total.mismatch_digest).unwrap();
}
