//! Per-vector replay logic: which expansions to run in which mode, and the
//! statistics that go into evidence files.

use crate::judge::*;
use crate::obs::*;
use crate::vecs::*;
use std::collections::BTreeMap;

pub const M_PLACES: u32 = 1; // Start + Align placements as well as End
pub const M_ENTRIES: u32 = 2; // every entry point of the kind (C16)
pub const M_CFGS: u32 = 4; // irrelevant-option expansions (C15)
pub const M_COMPLETION: u32 = 8; // completion witness on Partial (C11)
pub const M_EXTEND: u32 = 16; // parent/child and suffix stability (C02)
pub const M_ALIGN_ALL: u32 = 32; // all 32 alignments (C13)
pub const M_EMBED: u32 = 64; // hdrs vectors embedded after a start line (C16)
pub const M_CAPLAW: u32 = 128; // capacity law against the same input with more room (C17)
pub const M_STRADDLE8: u32 = 256; // 8 placements with a page boundary inside the buffer
pub const M_STRADDLE_ALL: u32 = 512; // every position of a page boundary inside the buffer
pub const M_GIANT: u32 = 1024; // head at the start of a sparse > 4 GiB slice (final verdicts, completed Partials)
pub const M_CFGS_DONE: u32 = 4096; // cfgs also on default-Partial vectors completed with their witness
pub const M_HEAP: u32 = 2048; // exact-size heap block per vector (for a run under a memory checker)

pub fn parse_modes(s: &str) -> u32 {
    let mut m = 0;
    for w in s.split(',') {
        m |= match w.trim() {
            "" | "base" => 0,
            "places" => M_PLACES,
            "entries" => M_ENTRIES,
            "cfgs" => M_CFGS,
            "completion" => M_COMPLETION,
            "extend" => M_EXTEND,
            "alignall" => M_ALIGN_ALL,
            "embed" => M_EMBED,
            "caplaw" => M_CAPLAW,
            "straddle8" => M_STRADDLE8,
            "straddleall" => M_STRADDLE_ALL,
            "giant" => M_GIANT,
            "heap" => M_HEAP,
            "cfgsdone" => M_CFGS | M_CFGS_DONE,
            "all" => M_PLACES | M_ENTRIES | M_CFGS | M_COMPLETION | M_EXTEND | M_EMBED | M_CAPLAW,
            x => panic!("unknown mode {}", x),
        };
    }
    m
}

#[derive(Default, Clone)]
pub struct Stats {
    pub vectors: u64,
    pub nontrivial: u64,
    pub observations: u64,
    pub by_kind_verdict: BTreeMap<String, u64>,
    pub by_phase: BTreeMap<String, u64>,
    pub by_err: BTreeMap<String, u64>,
    pub tags: BTreeMap<String, u64>,
    pub drift: u64,
    pub drift_samples: Vec<String>,
    pub max_len: usize,
    pub completions_run: u64,
    pub extensions_run: u64,
    pub cfg_expansions: u64,
    pub entry_expansions: u64,
    pub placements: u64,
    pub embed_run: u64,
    pub caplaw_run: u64,
    pub samples: Vec<String>,
    /// order-independent digest (wrapping sum of hashes) of every tagged mismatch
    pub mismatch_digest: u64,
}

impl Stats {
    pub fn merge(&mut self, o: &Stats) {
        self.vectors += o.vectors;
        self.nontrivial += o.nontrivial;
        self.observations += o.observations;
        for (k, v) in &o.by_kind_verdict {
            *self.by_kind_verdict.entry(k.clone()).or_default() += v;
        }
        for (k, v) in &o.by_phase {
            *self.by_phase.entry(k.clone()).or_default() += v;
        }
        for (k, v) in &o.by_err {
            *self.by_err.entry(k.clone()).or_default() += v;
        }
        for (k, v) in &o.tags {
            *self.tags.entry(k.clone()).or_default() += v;
        }
        self.mismatch_digest = self.mismatch_digest.wrapping_add(o.mismatch_digest);
        self.drift += o.drift;
        for s in &o.drift_samples {
            if self.drift_samples.len() < 5 {
                self.drift_samples.push(s.clone());
            }
        }
        self.max_len = self.max_len.max(o.max_len);
        self.completions_run += o.completions_run;
        self.extensions_run += o.extensions_run;
        self.cfg_expansions += o.cfg_expansions;
        self.entry_expansions += o.entry_expansions;
        self.placements += o.placements;
        self.embed_run += o.embed_run;
        self.caplaw_run += o.caplaw_run;
        for s in &o.samples {
            if self.samples.len() < 6 {
                self.samples.push(s.clone());
            }
        }
    }
}

#[derive(Clone, Debug)]
pub struct Violation {
    pub prop: &'static str,
    pub msg: String,
    pub entry: &'static str,
    pub context: String,
    pub line: String,
}

pub struct Ctx {
    pub arena: Arena,
    pub arena2: Arena,
    pub modes: u32,
    pub stats: Stats,
    pub violations: Vec<Violation>,
    pub max_violations: usize,
    /// 64-bit hashes of the (kind, options, capacity, bytes) of every non-trivial vector seen
    pub hashes: Vec<u64>,
    pub giant: Option<crate::giant::Giant>,
    pub giant_tried: bool,
    pub giant_slow: u32,
    pub vg_errors: usize,
}

/// Valgrind client request (x86_64 magic sequence; a no-op returning `default` outside valgrind)
#[cfg(target_arch = "x86_64")]
fn vg_request(default: usize, args: &[usize; 6]) -> usize {
    let mut res = default;
    unsafe {
        core::arch::asm!(
            "rol rdi, 3", "rol rdi, 13", "rol rdi, 61", "rol rdi, 51", "xchg rbx, rbx",
            inout("rdx") res, in("rax") args.as_ptr(), options(nostack)
        );
    }
    res
}
#[cfg(not(target_arch = "x86_64"))]
fn vg_request(default: usize, _args: &[usize; 6]) -> usize { default }
/// number of errors the memory checker has reported so far (VG_USERREQ__COUNT_ERRORS)
pub fn vg_count_errors() -> usize { vg_request(0, &[0x1201, 0, 0, 0, 0, 0]) }
/// 1.. under valgrind, 0 otherwise (VG_USERREQ__RUNNING_ON_VALGRIND)
pub fn vg_running() -> usize { vg_request(0, &[0x1001, 0, 0, 0, 0, 0]) }

/// real array length for a vector.  For "unlimited" capacity the length varies with the
/// vector index: one spare slot only, a few, more than 16, more than 32, 100 - so that
/// behaviour that depends on the array length (or on its address) is exercised as well.
pub fn real_cap_idx(v: &Vector, idx: u64) -> usize {
    if v.cap >= INF {
        let h = v.hdrs.len();
        [h + 8, h + 1, h + 17, h + 40, 100 + h][(idx % 5) as usize].min(1000)
    } else {
        v.cap as usize
    }
}
pub fn real_cap(v: &Vector) -> usize {
    real_cap_idx(v, 0)
}

pub fn primary_entry(kind: u8) -> u8 {
    match kind {
        K_REQ => E_CFG_REQ,
        K_RESP => E_CFG_RESP,
        K_HDRS => E_HEADERS,
        _ => E_CHUNK,
    }
}

const SUFFIXES: [&[u8]; 8] = [b"\n", b"a", b"\r\n\r\n", b" ", b":", b"\0", b"\r", b"GET / HTTP/1.1\r\nA: b\r\n\r\n"];

impl Ctx {
    pub fn new(modes: u32, big: bool) -> Ctx {
        let sz = if big { 2 << 20 } else { 64 << 10 };
        Ctx { arena: Arena::new(sz), arena2: Arena::new(sz), modes, stats: Stats::default(), violations: Vec::new(), max_violations: 200, hashes: Vec::new(), giant: None, giant_tried: false, giant_slow: 0, vg_errors: 0 }
    }

    fn report(&mut self, tags: Tags, entry: u8, context: &str, line: &str) {
        for (p, m) in tags {
            *self.stats.tags.entry(p.to_string()).or_default() += 1;
            let mut h: u64 = 0xcbf29ce484222325;
            for b in p.bytes().chain(m.bytes()).chain(context.bytes()).chain(line.bytes()).chain([entry].into_iter()) {
                h ^= b as u64;
                h = h.wrapping_mul(0x100000001b3);
            }
            self.stats.mismatch_digest = self.stats.mismatch_digest.wrapping_add(h);
            if self.violations.len() < self.max_violations {
                self.violations.push(Violation { prop: p, msg: m, entry: ENTRY_NAMES[entry as usize], context: context.to_string(), line: line.to_string() });
            }
        }
    }

    fn drift(&mut self, d: Vec<String>, line: &str) {
        for x in d {
            self.stats.drift += 1;
            if self.stats.drift_samples.len() < 5 {
                self.stats.drift_samples.push(format!("{} :: {}", x, line));
            }
        }
    }

    /// append the specification's completion witness and a few generic tails, and judge any
    /// Complete result under the observation-only properties
    fn probe(&mut self, v: &Vector, entry: u8, cap: usize, how: Place, line: &str) {
        const TAILS: [&[u8]; 11] = [
            b" / HTTP/1.1\r\n\r\n", b" HTTP/1.1\r\n\r\n", b"\r\n\r\n", b": x\r\n\r\n", b"\n\n", b" 200 OK\r\n\r\n", b"x\r\n\r\n",
            // a second defect behind the first one: the first still decides the error kind
            b"XTTP/1.1\r\n\r\n", b" / XTTP/1.1\r\n\r\n", b"\x01\r\n\r\n", b" 2x0 OK\r\n\r\n",
        ];
        let mut tails: Vec<Vec<u8>> = vec![v.completion.clone()];
        tails.extend(TAILS.iter().map(|t| t.to_vec()));
        for tail in tails {
            let mut b2 = v.buf.clone();
            b2.extend_from_slice(&tail);
            let p2 = self.arena2.place(&b2, how);
            let p2: &[u8] = unsafe { std::slice::from_raw_parts(p2.as_ptr(), p2.len()) };
            let o = run(entry, v.cfg, p2, cap + 4);
            self.stats.observations += 1;
            // the specification's error is final: no continuation of the buffer can change which
            // element is named (C10 names the element holding the FIRST offending byte)
            if v.st == ST_E && v.err != 7 && o.st == ST_E && !o.panicked && o.err != v.err && o.err != 7 {
                let t: Tags = vec![
                    ("C10", format!("Err({}) after the buffer grew, but the first offending byte makes it Err({})", ERR_NAMES[o.err as usize], ERR_NAMES[v.err as usize])),
                ];
                self.report(t, entry, &format!("{:?}, continued with {:?}", how, String::from_utf8_lossy(&tail)), line);
                break;
            }
            if o.st == ST_C && !o.panicked {
                let mut t = Tags::new();
                judge_zero_copy(v, &o, p2, &mut t);
                judge_hygiene(v, &o, p2, &mut t);
                // fields the specification had already determined when the buffer ended are final
                // (PropFieldsMonotone): the completed parse must report exactly them
                if v.st == ST_P {
                    judge_determined_fields(v, &o, p2, &mut t);
                }
                if !t.is_empty() {
                    self.report(t, entry, &format!("{:?}, continued with {:?}", how, String::from_utf8_lossy(&tail)), line);
                }
                break;
            }
        }
    }

    /// every one of the 127 other option sets on an input the default configuration accepts
    fn all_cfgs(&mut self, kind: u8, entry: u8, buf: &[u8], cap: usize, base: &Obs, line: &str, note: &str) {
        for c in 1u8..128 {
            let o = run(entry, c, buf, cap);
            self.stats.observations += 1;
            self.stats.cfg_expansions += 1;
            let mut o2 = o.clone();
            // sole stated exception: Mr strips leading spaces from the reason
            if kind == K_RESP && c & 2 != 0 {
                if let (Some(br), Some(or)) = (base.reason, o.reason) {
                    let bb = unsafe { br.bytes() };
                    let lead = bb.iter().take_while(|x| **x == b' ').count();
                    let want = Sl { ptr: br.ptr + lead, len: br.len - lead };
                    if or == want || (want.len == 0 && or.len == 0) {
                        o2.reason = base.reason;
                    }
                }
            }
            if let Some(m) = same_result(base, buf, &o2, buf) {
                let t = vec![("C15", format!("input accepted by the default configuration parses differently under cfg bits {:#x}{}: {}", c, note, m))];
                self.report(t, entry, &format!("cfg={:#x}", c), line);
            }
        }
    }

    pub fn process(&mut self, v: &Vector, line: &str, idx: u64) {
        let st = &mut self.stats;
        st.vectors += 1;
        if !v.buf.is_empty() {
            st.nontrivial += 1;
            let mut h: u64 = 0xcbf29ce484222325;
            for b in [v.kind, v.cfg].iter().chain((v.cap as u32).to_le_bytes().iter()).chain(v.buf.iter()) {
                h ^= *b as u64;
                h = h.wrapping_mul(0x100000001b3);
            }
            self.hashes.push(h);
        }
        st.max_len = st.max_len.max(v.buf.len());
        let kname = ["req", "resp", "hdrs", "chunk"][v.kind as usize];
        *st.by_kind_verdict.entry(format!("{}:{}", kname, ["P", "C", "E"][v.st as usize])).or_default() += 1;
        *st.by_phase.entry(PHASES[v.ph as usize].to_string()).or_default() += 1;
        if v.st == ST_E {
            *st.by_err.entry(ERR_NAMES[v.err as usize].to_string()).or_default() += 1;
        }
        if st.samples.len() < 6 && (idx % 1009 == 7 || st.samples.is_empty()) {
            st.samples.push(line.to_string());
        }

        let cap = real_cap_idx(v, idx);
        let entry = primary_entry(v.kind);
        let modes = self.modes;
        // the options the kind must ignore are set to a rotating pattern instead of all-off: the
        // specification says they cannot matter, whichever check is running
        let other = !v.relevant_mask() & 127;
        let mut vv = v.clone();
        if v.kind == K_REQ || v.kind == K_RESP {
            vv.cfg = v.cfg | (((idx.wrapping_mul(0x9e3779b97f4a7c15) >> 40) as u8) & other);
        }
        let v = &vv;

        // ---- exact-size heap block (run under a memory checker: a read or write outside the
        // caller's buffer that stays inside mapped memory is invisible to guard pages)
        if modes & M_HEAP != 0 {
            let hb: Box<[u8]> = v.buf.clone().into_boxed_slice();
            for &e in entries_of(v.kind, v.cfg == 0) {
                let o = run(e, v.cfg, &hb, cap);
                self.stats.observations += 1;
                let mut tags = Tags::new();
                let mut drift = Vec::new();
                judge_all(v, &o, &hb, e, &mut tags, &mut drift);
                let n = vg_count_errors();
                if n > self.vg_errors {
                    self.vg_errors = n;
                    tags.push(("C01", "the memory checker reported an access outside the buffer (exact-size heap block) during this call".into()));
                }
                if !tags.is_empty() {
                    self.report(tags, e, "placement=Heap", line);
                }
            }
            return;
        }

        // ---- base observation: end of buffer flush against an unmapped page
        let buf = self.arena.place(&v.buf, Place::End);
        let buf: &[u8] = unsafe { std::slice::from_raw_parts(buf.as_ptr(), buf.len()) };
        let base = run(entry, v.cfg, buf, cap);
        self.stats.observations += 1;
        let mut tags = Tags::new();
        let mut drift = Vec::new();
        judge_all(v, &base, buf, entry, &mut tags, &mut drift);
        let had_mismatch = !tags.is_empty();
        if had_mismatch {
            self.report(tags, entry, "placement=End", line);
        }
        self.drift(drift, line);

        // ---- the code disagrees with the specification while still Partial: bring the parse to
        // an end and judge what it then hands out (C04 / C05 are judged on the observation alone)
        if had_mismatch && base.st == ST_P && v.kind != K_CHUNK {
            self.probe(v, entry, cap, Place::End, line);
        }

        // ---- other placements
        if modes & (M_PLACES | M_ALIGN_ALL) != 0 {
            let mut places = vec![Place::Start, Place::Align((idx % 32) as usize)];
            if modes & M_ALIGN_ALL != 0 {
                places = (0..32).map(Place::Align).collect();
                places.push(Place::Start);
            }
            for pl in places {
                let b2 = self.arena2.place(&v.buf, pl);
                let b2: &[u8] = unsafe { std::slice::from_raw_parts(b2.as_ptr(), b2.len()) };
                let o = run(entry, v.cfg, b2, cap);
                self.stats.observations += 1;
                self.stats.placements += 1;
                let mut tags = Tags::new();
                let mut d = Vec::new();
                judge_all(v, &o, b2, entry, &mut tags, &mut d);
                if let Some(m) = same_result(&base, buf, &o, b2) {
                    tags.push(("C13", format!("result depends on buffer placement {:?}: {}", pl, m)));
                    if base.st != ST_P || o.st != ST_P {
                        tags.push(("C02", format!("the same bytes at another address give a different final answer ({:?}): {}", pl, m)));
                    }
                }
                if !tags.is_empty() {
                    self.report(tags, entry, &format!("placement={:?}", pl), line);
                }
            }
        }

        // ---- a page boundary of the address space inside the buffer (code that treats loads
        // near page boundaries specially depends on the buffer's address, not on its content)
        if modes & (M_STRADDLE8 | M_STRADDLE_ALL) != 0 && v.buf.len() >= 2 {
            let len = v.buf.len();
            let ks: Vec<usize> = if modes & M_STRADDLE_ALL != 0 {
                (1..len).collect()
            } else {
                // around the last bytes (where families put the byte under test), and spread out
                let mut k: Vec<usize> = vec![len - 1, len.saturating_sub(2).max(1), len.saturating_sub(3).max(1), len.saturating_sub(9).max(1),
                                             len.saturating_sub(17).max(1), len.saturating_sub(33).max(1), 1 + (idx as usize % (len - 1)), 1 + ((idx as usize * 7 + 3) % (len - 1))];
                k.sort_unstable();
                k.dedup();
                k
            };
            for k in ks {
                let b2 = self.arena2.place(&v.buf, Place::Straddle(k));
                let b2: &[u8] = unsafe { std::slice::from_raw_parts(b2.as_ptr(), b2.len()) };
                let o = run(entry, v.cfg, b2, cap);
                self.stats.observations += 1;
                self.stats.placements += 1;
                let mut tags = Tags::new();
                let mut d = Vec::new();
                judge_all(v, &o, b2, entry, &mut tags, &mut d);
                if let Some(m) = same_result(&base, buf, &o, b2) {
                    tags.push(("C13", format!("result depends on where a page boundary falls inside the buffer (after byte {}): {}", k, m)));
                    if base.st != ST_P || o.st != ST_P {
                        // a growing buffer moves when it is re-allocated: a final answer that depends on
                        // the address is not stable under appending
                        tags.push(("C02", format!("the same bytes at another address give a different final answer (page boundary after byte {}): {}", k, m)));
                    }
                }
                if !tags.is_empty() {
                    self.report(tags, entry, &format!("placement=Straddle({})", k), line);
                    if o.st == ST_P && v.kind != K_CHUNK {
                        self.probe(v, entry, cap, Place::Straddle(k), line);
                    }
                    break;
                }
            }
        }

        // ---- every entry point of the kind
        if modes & M_ENTRIES != 0 {
            let dflt = v.cfg & v.relevant_mask() == 0;
            for &e in entries_of(v.kind, dflt) {
                if e == entry {
                    continue;
                }
                let o = run(e, v.cfg, buf, cap);
                self.stats.observations += 1;
                self.stats.entry_expansions += 1;
                let mut tags = Tags::new();
                let mut d = Vec::new();
                judge_all(v, &o, buf, e, &mut tags, &mut d);
                if let Some(m) = same_result(&base, buf, &o, buf) {
                    tags.push(("C16", format!("{} disagrees with {}: {}", ENTRY_NAMES[e as usize], ENTRY_NAMES[entry as usize], m)));
                }
                if !tags.is_empty() {
                    self.report(tags, e, "entry expansion", line);
                }
            }
        }

        // ---- the same from a value that has been used before (an earlier parse of another buffer
        // set the start-line fields and returned Partial): the entry points still agree with each
        // other - fields included, whatever the verdict - and the verdict is the fresh value's
        if modes & M_ENTRIES != 0 && (v.kind == K_REQ || v.kind == K_RESP) && !base.panicked {
            let dflt = v.cfg & v.relevant_mask() == 0;
            let bd = run_dirty(entry, v.cfg, buf, cap);
            self.stats.observations += 1;
            if !bd.panicked {
                if let Some(m) = same_result(&base, buf, &bd, buf) {
                    let t = vec![("C18", format!("on a value used before, {} answers differently than on a fresh value: {}", ENTRY_NAMES[entry as usize], m))];
                    self.report(t, entry, "used value", line);
                }
                let key = |o: &Obs| (o.method.map(|s| (s.ptr, s.len)), o.path.map(|s| (s.ptr, s.len)), o.reason.map(|s| (s.ptr, s.len)), o.version, o.code);
                for &e in entries_of(v.kind, dflt) {
                    if e == entry {
                        continue;
                    }
                    let od = run_dirty(e, v.cfg, buf, cap);
                    self.stats.observations += 1;
                    self.stats.entry_expansions += 1;
                    if od.panicked {
                        continue;
                    }
                    let m = same_result(&bd, buf, &od, buf).or_else(|| if key(&bd) != key(&od) { Some("start-line fields differ".to_string()) } else { None });
                    if let Some(m) = m {
                        let t = vec![("C16", format!("on a value used before, {} disagrees with {}: {}", ENTRY_NAMES[e as usize], ENTRY_NAMES[entry as usize], m))];
                        self.report(t, e, "entry expansion, used value", line);
                    }
                }
            }
        }

        // ---- options the kind does not read; all 128 on default-Complete inputs
        if modes & M_CFGS != 0 && (v.kind == K_REQ || v.kind == K_RESP) {
            let rel = v.relevant_mask();
            for extra in 1u8..128 {
                if extra & rel != 0 {
                    continue;
                }
                let o = run(entry, v.cfg | extra, buf, cap);
                self.stats.observations += 1;
                self.stats.cfg_expansions += 1;
                if let Some(m) = same_result(&base, buf, &o, buf) {
                    let t = vec![("C15", format!("options of the other message kind (bits {:#x}) change the result: {}", extra, m))];
                    self.report(t, entry, &format!("cfg={:#x}", v.cfg | extra), line);
                }
            }
            if v.cfg == 0 && base.st == ST_C {
                self.all_cfgs(v.kind, entry, buf, cap, &base, line, "");
            }
            // a Partial of the default configuration, completed with the specification's witness,
            // is an input the default configuration accepts as well
            if modes & M_CFGS_DONE != 0 && v.cfg == 0 && v.st == ST_P && base.st == ST_P && !v.deferred && !v.completion.is_empty() {
                let mut b2 = v.buf.clone();
                b2.extend_from_slice(&v.completion);
                let p2 = self.arena2.place(&b2, Place::End);
                let p2: &[u8] = unsafe { std::slice::from_raw_parts(p2.as_ptr(), p2.len()) };
                let o = run(entry, 0, p2, cap);
                self.stats.observations += 1;
                if o.st == ST_C && !o.panicked {
                    self.all_cfgs(v.kind, entry, p2, cap, &o, line, " (buffer ++ completion witness)");
                }
            }
        }

        // ---- completion witness
        if modes & M_COMPLETION != 0 && base.st == ST_P && v.st == ST_P && !v.deferred {
            let mut b2 = v.buf.clone();
            b2.extend_from_slice(&v.completion);
            let p2 = self.arena2.place(&b2, Place::End);
            let p2: &[u8] = unsafe { std::slice::from_raw_parts(p2.as_ptr(), p2.len()) };
            let o = run(entry, v.cfg, p2, cap);
            self.stats.observations += 1;
            self.stats.completions_run += 1;
            if o.st != ST_C && !o.panicked {
                let t = vec![("C11", format!("Partial, but the specification's completion witness {:?} yields {}", v.completion, if o.st == ST_P { "Partial".to_string() } else { format!("Err({})", ERR_NAMES[o.err as usize]) }))];
                self.report(t, entry, "completion", line);
            }
        }

        // ---- stability under appending
        if modes & M_EXTEND != 0 {
            if !v.buf.is_empty() {
                let parent = &v.buf[..v.buf.len() - 1];
                let p2 = self.arena2.place(parent, Place::End);
                let p2: &[u8] = unsafe { std::slice::from_raw_parts(p2.as_ptr(), p2.len()) };
                let o = run(entry, v.cfg, p2, cap);
                self.stats.observations += 1;
                self.stats.extensions_run += 1;
                if !o.panicked && !base.panicked {
                    if o.st != ST_P {
                        if let Some(m) = same_result(&o, p2, &base, buf) {
                            let t = vec![("C02", format!("the prefix one byte shorter already gave a final answer, appending a byte changed it: {}", m))];
                            self.report(t, entry, "parent/child", line);
                        }
                    } else {
                        let mut t = Tags::new();
                        let rel = |s: &Option<Sl>, b: &[u8]| s.map(|x| x.within(b).map(|w| (w.0, w.1, x.len)).unwrap_or((usize::MAX, 0, x.len)));
                        if o.method.is_some() && base.st != ST_E && rel(&o.method, p2) != rel(&base.method, buf) {
                            t.push(("C02", "method reported with Partial changed when a byte was appended".into()));
                        }
                        if o.path.is_some() && base.st != ST_E && rel(&o.path, p2) != rel(&base.path, buf) {
                            t.push(("C02", "path reported with Partial changed when a byte was appended".into()));
                        }
                        if o.version.is_some() && base.st != ST_E && o.version != base.version {
                            t.push(("C02", "version reported with Partial changed when a byte was appended".into()));
                        }
                        if o.code.is_some() && base.st != ST_E && o.code != base.code {
                            t.push(("C02", "code reported with Partial changed when a byte was appended".into()));
                        }
                        if o.reason.is_some() && base.st != ST_E && rel(&o.reason, p2) != rel(&base.reason, buf) {
                            t.push(("C02", "reason reported with Partial changed when a byte was appended".into()));
                        }
                        if !t.is_empty() {
                            self.report(t, entry, "parent/child", line);
                        }
                    }
                }
            }
            if base.st != ST_P && !base.panicked {
                for (si, suf) in SUFFIXES.iter().enumerate() {
                    if (idx as usize + si) % 4 != 0 && v.buf.len() > 4 {
                        continue; // rotate suffixes on longer inputs
                    }
                    let mut b2 = v.buf.clone();
                    b2.extend_from_slice(suf);
                    let p2 = self.arena2.place(&b2, Place::End);
                    let p2: &[u8] = unsafe { std::slice::from_raw_parts(p2.as_ptr(), p2.len()) };
                    let o = run(entry, v.cfg, p2, cap);
                    self.stats.observations += 1;
                    self.stats.extensions_run += 1;
                    if let Some(m) = same_result(&base, buf, &o, p2) {
                        let t = vec![("C02", format!("final answer changed after appending {:?}: {}", suf, m))];
                        self.report(t, entry, "suffix", line);
                    }
                }
                // more of the same: the last byte (the one that decided) repeated, so that runs which
                // ended the parse grow across every block width of the code
                if let Some(&last) = v.buf.last() {
                    const REPS: [usize; 14] = [1, 2, 3, 4, 7, 8, 9, 15, 16, 17, 31, 32, 33, 64];
                    for (si, &k) in REPS.iter().enumerate() {
                        if v.kind != K_CHUNK && (idx as usize + si) % 4 != 0 && v.buf.len() > 4 {
                            continue;
                        }
                        let mut b2 = v.buf.clone();
                        b2.extend(std::iter::repeat(last).take(k));
                        let p2 = self.arena2.place(&b2, Place::End);
                        let p2: &[u8] = unsafe { std::slice::from_raw_parts(p2.as_ptr(), p2.len()) };
                        let o = run(entry, v.cfg, p2, cap);
                        self.stats.observations += 1;
                        self.stats.extensions_run += 1;
                        if let Some(m) = same_result(&base, buf, &o, p2) {
                            let t = vec![("C02", format!("final answer changed after appending {} more of byte {}: {}", k, last, m))];
                            self.report(t, entry, "suffix", line);
                        }
                    }
                }
            }
        }

        // ---- header block embedded after a start line (C16)
        if modes & M_EMBED != 0 && v.kind == K_HDRS {
            for (pre, e) in [(&b"GET / HTTP/1.1\r\n"[..], E_CFG_REQ), (&b"HTTP/1.1 200 OK\r\n"[..], E_CFG_RESP)] {
                let mut b2 = pre.to_vec();
                b2.extend_from_slice(&v.buf);
                let p2 = self.arena2.place(&b2, Place::End);
                let p2: &[u8] = unsafe { std::slice::from_raw_parts(p2.as_ptr(), p2.len()) };
                let o = run(e, 0, p2, cap);
                self.stats.observations += 1;
                self.stats.embed_run += 1;
                let shift = pre.len();
                let mut t = Tags::new();
                if o.panicked || base.panicked {
                    continue;
                }
                if (o.st, o.err) != (base.st, base.err) || (o.st == ST_C && o.n != base.n + shift) {
                    t.push(("C16", format!("parse_headers gives {}({},{}) but the same block after a start line gives {}({},{})",
                        ["Partial", "Complete", "Err"][base.st as usize], base.n, ERR_NAMES[base.err as usize],
                        ["Partial", "Complete", "Err"][o.st as usize], o.n, ERR_NAMES[o.err as usize])));
                } else if o.st == ST_C {
                    if o.exposed.len() != base.exposed.len() {
                        t.push(("C16", "header count differs between parse_headers and the embedded block".into()));
                    } else {
                        for i in 0..o.exposed.len() {
                            let a = (base.exposed[i].0.within(buf), base.exposed[i].1.len);
                            let b = (o.exposed[i].0.within(p2).map(|w| (w.0 - shift, w.1 - shift)), o.exposed[i].1.len);
                            let av = if base.exposed[i].1.len > 0 { base.exposed[i].1.within(buf) } else { None };
                            let bv = if o.exposed[i].1.len > 0 { o.exposed[i].1.within(p2).map(|w| (w.0 - shift, w.1 - shift)) } else { None };
                            if a != b || av != bv {
                                t.push(("C16", format!("header {} differs between parse_headers and the embedded block", i)));
                            }
                        }
                    }
                }
                if !t.is_empty() {
                    self.report(t, e, "embedded header block", line);
                }
            }
        }

        // ---- capacity law: same input with plenty of room
        if modes & M_CAPLAW != 0 && v.kind != K_CHUNK && v.cap < INF && !base.panicked {
            let big = cap + 12;
            let o = run(entry, v.cfg, buf, big);
            self.stats.observations += 1;
            self.stats.caplaw_run += 1;
            if !o.panicked {
                let overflow = base.st == ST_E && base.err == 7;
                if overflow {
                    // legitimate only if more than `cap` headers complete with room
                    let stored = if o.st == ST_C { o.exposed.len() } else { o.slots.iter().enumerate().filter(|(i, h)| !is_sentinel(h, i + 1)).count() };
                    if stored <= cap {
                        let t = vec![("C17", format!("TooManyHeaders with capacity {}, but with room only {} header(s) complete", cap, stored))];
                        self.report(t, entry, "capacity law", line);
                    }
                } else if let Some(m) = same_result(&base, buf, &o, buf) {
                    let t = vec![("C17", format!("outcome with capacity {} differs from the outcome with capacity {} although no surplus header completed: {}", cap, big, m))];
                    self.report(t, entry, "capacity law", line);
                }
            }
        }

        // ---- the head at the start of a slice of more than 4 GiB (zero pages behind it)
        if modes & M_GIANT != 0 && !base.panicked && !had_mismatch {
            let mut vh: u64 = 0xcbf29ce484222325;
            for b in [v.kind, v.cfg].iter().chain(v.buf.iter()) {
                vh ^= *b as u64;
                vh = vh.wrapping_mul(0x100000001b3);
            }
            let vh = vh >> 3;
            if !self.giant_tried {
                self.giant_tried = true;
                self.giant = crate::giant::Giant::new();
            }
            // what the specification says about head ++ 0^k: a final verdict is absorbing; a
            // Partial that is not deferred becomes Complete(len) with its completion witness
            // behind an Err, a plausible continuation instead of zeros: the verdict is final all the
            // same, and a scanner that let the offending byte through would now go on to accept
            const AFTER_ERR: [&[u8]; 4] = [b"", b"aaaaaaaaaaaaaaaaaaaaaaaa HTTP/1.1\r\n\r\n", b"aaaaaaaaaaaaaaaaaaaaaaaa\r\n\r\n", b"aaaaaaaaaaaaaaaaaaaaaaaa: x\r\n\r\n"];
            let head: Option<Vec<u8>> = if v.st == ST_E && v.kind != K_CHUNK {
                let mut h = v.buf.clone();
                h.extend_from_slice(AFTER_ERR[((vh >> 8) % 4) as usize]);
                Some(h)
            } else if v.st != ST_P {
                Some(v.buf.clone())
            } else if !v.deferred && !v.completion.is_empty() && v.kind != K_CHUNK {
                let mut h = v.buf.clone();
                h.extend_from_slice(&v.completion);
                Some(h)
            } else {
                None
            };
            if let (Some(head), true) = (head, self.giant.is_some()) {
                for t in 0..2u64 {
                    // (derived from the vector, not from its position in the file: a crash candidate
                    // re-run alone sees the same slice)
                    let j = ((vh.wrapping_mul(2) + t).wrapping_mul(7) % 41) as usize;
                    let total = crate::giant::FOUR_G + j;
                    let g = match self.giant.as_mut() { Some(g) => g, None => break };
                    let p2 = g.place(&head, total);
                    let p2: &[u8] = unsafe { std::slice::from_raw_parts(p2.as_ptr(), p2.len()) };
                    let t0 = std::time::Instant::now();
                    let o = run(entry, v.cfg, p2, cap);
                    let mut slow = t0.elapsed().as_millis() > 250;
                    if slow {
                        // (a descheduled thread looks the same once; not twice in a row)
                        let t1 = std::time::Instant::now();
                        let _ = run(entry, v.cfg, p2, cap);
                        slow = t1.elapsed().as_millis() > 250;
                    }
                    self.stats.observations += 1;
                    self.stats.placements += 1;
                    let mut tg = Tags::new();
                    if slow {
                        // the head is a few dozen bytes and decides the answer; a quarter of a second
                        // means the code went on reading the gigabytes behind it
                        let m = format!("the call took {} ms on a {}-byte head followed by zeros: the code keeps reading far behind the bytes that decide the answer", t0.elapsed().as_millis(), head.len());
                        tg.push(("C20", m.clone()));
                        tg.push(("C02", m.clone()));
                        tg.push((v.language_prop(), m.clone()));
                        tg.push(("C05", m));
                        self.giant_slow += 1;
                        if self.giant_slow >= 3 {
                            self.giant = None; // three are enough; do not crawl through the family
                        }
                    }
                    if o.panicked {
                        tg.push(("C01", "the call panicked".into()));
                    } else if v.st != ST_P {
                        if let Some(m) = same_result(&base, buf, &o, p2) {
                            tg.push(("C02", format!("final answer changed when the slice was extended to 2^32+{} bytes: {}", j, m)));
                            tg.push((v.language_prop(), format!("answer on a slice of 2^32+{} bytes (the same head, zeros behind it) differs: {}", j, m)));
                            tg.push(("C13", format!("answer depends on the length of the slice behind the head (2^32+{}): {}", j, m)));
                        }
                        judge_zero_copy(v, &o, p2, &mut tg);
                        judge_hygiene(v, &o, p2, &mut tg);
                    } else if !(o.st == ST_C && o.n == head.len()) {
                        let m = format!("buffer ++ completion witness is Complete({}) by the specification, but on a slice of 2^32+{} bytes the code answers {}({})",
                            head.len(), j, ["Partial", "Complete", "Err"][o.st as usize], if o.st == ST_E { ERR_NAMES[o.err as usize].to_string() } else { o.n.to_string() });
                        tg.push((v.language_prop(), m.clone()));
                        tg.push(("C02", m.clone()));
                        tg.push(("C11", m));
                    } else {
                        judge_zero_copy(v, &o, p2, &mut tg);
                        judge_hygiene(v, &o, p2, &mut tg);
                    }
                    if !tg.is_empty() {
                        self.report(tg, entry, &format!("placement=Giant(2^32+{})", j), line);
                    }
                }
            }
        }
    }
}
