//! feed / session / race / scan trace drivers (implementation -> specification)
use crate::obs::*;
use crate::vecs::*;
use rand::rngs::StdRng;
use rand::{Rng, SeedableRng};
use std::io::{BufRead, BufWriter, Write};

fn arg(args: &[String], name: &str) -> Option<String> {
    args.iter().position(|a| a == name).and_then(|i| args.get(i + 1).cloned())
}

pub fn entry_of(kind: u8) -> u8 {
    match kind {
        K_REQ => E_CFG_REQ,
        K_RESP => E_CFG_RESP,
        K_HDRS => E_HEADERS,
        _ => E_CHUNK,
    }
}

fn span(s: &Option<Sl>, buf: &[u8]) -> String {
    match s {
        None => "[-1,-1]".into(),
        Some(sl) => match sl.within(buf) {
            Some((a, b)) => format!("[{},{}]", a, b),
            None => {
                if sl.len == 0 {
                    "[0,0]".into()
                } else {
                    format!("[-2,{}]", sl.len as i64 - 2)
                }
            }
        },
    }
}

/// canaries intact; on Complete every slot beyond the exposed count still holds its sentinel and
/// every exposed slot is the array's slot; otherwise (observation only, no parsing logic)
pub fn slots_ok(o: &Obs) -> bool {
    if o.slots.is_empty() && o.exposed.is_empty() {
        return true;
    }
    if !o.canary_ok {
        return false;
    }
    if o.st == ST_C {
        for (i, h) in o.exposed.iter().enumerate() {
            if i < o.slots.len() && o.slots[i] != *h {
                return false;
            }
        }
        for i in o.exposed.len()..o.slots.len() {
            if !is_sentinel(&o.slots[i], i + 1) {
                return false;
            }
        }
    }
    true
}

pub fn obs_json(o: &Obs, buf: &[u8], kind: u8) -> String {
    // very long header lists are summarised by their count (hcount)
    let hs: Vec<String> = if o.st == ST_C && o.exposed.len() <= 2000 {
        o.exposed
            .iter()
            .map(|h| {
                let n = span(&Some(h.0), buf);
                let v = span(&Some(h.1), buf);
                format!("[{},{}]", &n[1..n.len() - 1], &v[1..v.len() - 1])
            })
            .collect()
    } else {
        vec![]
    };
    let digits: Vec<String> = if kind == K_CHUNK && o.st == ST_C {
        // the value as hex digits, most significant first, as many as the input had
        let n = buf.iter().take_while(|b| b.is_ascii_hexdigit()).count();
        let hex = format!("{:0width$x}", o.size, width = n);
        hex.chars().map(|c| c.to_digit(16).unwrap().to_string()).collect()
    } else {
        vec![]
    };
    format!(
        "\"st\":{},\"n\":{},\"err\":{},\"m\":{},\"p\":{},\"v\":{},\"c\":{},\"r\":{},\"h\":[{}],\"digits\":[{}],\"panicked\":{},\"allocs\":{},\"slots_ok\":{},\"hcount\":{}",
        o.st,
        o.n,
        o.err,
        span(&o.method, buf),
        span(&o.path, buf),
        o.version.map(|x| x as i64).unwrap_or(-1),
        o.code.map(|x| x as i64).unwrap_or(-1),
        span(&o.reason, buf),
        hs.join(","),
        digits.join(","),
        o.panicked,
        o.allocs,
        slots_ok(o) as u8,
        if o.st == ST_C { o.exposed.len() } else { 0 }
    )
}

/// random grammar-derived message (request or response) with optional mutation
pub fn random_message(rng: &mut StdRng, kind: u8, maxhdr: usize) -> Vec<u8> {
    let mut b = Vec::new();
    let tok = |rng: &mut StdRng, n: usize| -> Vec<u8> {
        const T: &[u8] = b"abcdefghijklmnopqrstuvwxyzABCDEFGHIJKLMNOPQRSTUVWXYZ0123456789-_.!#$%&'*+^`|~";
        (0..n).map(|_| T[rng.gen_range(0..T.len())]).collect()
    };
    let eol = |rng: &mut StdRng, b: &mut Vec<u8>| b.extend_from_slice(if rng.gen_bool(0.7) { b"\r\n" } else { b"\n" });
    if rng.gen_bool(0.1) {
        eol(rng, &mut b);
    }
    match kind {
        K_REQ => {
            let m: &[&[u8]] = &[b"GET", b"POST", b"PUT", b"OPTIONS", b"X-y", b"GE", b"POSTX", b"CONNECT", b"DELETE", b"PATCH", b"HEAD", b"PROPFIND", b"options"];
            b.extend_from_slice(m[rng.gen_range(0..m.len())]);
            b.push(b' ');
            if rng.gen_bool(0.1) {
                b.push(b' ');
            }
            b.push(b'/');
            let n = rng.gen_range(0..60);
            for _ in 0..n {
                b.push(rng.gen_range(0x21u8..0x7f));
            }
            if rng.gen_bool(0.3) {
                b.extend_from_slice(b"?q=%20a&b=c#frag/");
            }
            if rng.gen_bool(0.2) {
                b.extend_from_slice("é✓𐍈".as_bytes());
            }
            b.extend_from_slice(b" HTTP/1.");
            b.push(if rng.gen_bool(0.5) { b'0' } else { b'1' });
            eol(rng, &mut b);
        }
        K_RESP => {
            b.extend_from_slice(b"HTTP/1.");
            b.push(if rng.gen_bool(0.5) { b'0' } else { b'1' });
            b.push(b' ');
            if rng.gen_bool(0.1) {
                b.push(b' ');
            }
            for _ in 0..3 {
                b.push(b'0' + rng.gen_range(0..10));
            }
            if rng.gen_bool(0.8) {
                b.push(b' ');
                let n = rng.gen_range(0..20);
                for _ in 0..n {
                    b.push(if rng.gen_bool(0.03) { 0xe9 } else { rng.gen_range(0x20u8..0x7f) });
                }
            }
            eol(rng, &mut b);
        }
        K_CHUNK => {
            let n = rng.gen_range(0..18);
            for _ in 0..n {
                b.push(b"0123456789abcdefABCDEF"[rng.gen_range(0..22)]);
            }
            if rng.gen_bool(0.3) {
                b.push(b' ');
            }
            if rng.gen_bool(0.4) {
                b.push(b';');
                for _ in 0..rng.gen_range(0..30) {
                    b.push(rng.gen_range(0x20u8..0x7f));
                }
            }
            b.extend_from_slice(b"\r\n");
            if rng.gen_bool(0.2) && !b.is_empty() {
                let i = rng.gen_range(0..b.len());
                b[i] = [0u8, 9, 10, 13, 32, 59, 103, 255][rng.gen_range(0..8)];
            }
            return b;
        }
        _ => {}
    }
    const NAMES: [&[u8]; 12] = [b"Host", b"Content-Length", b"content-length", b"Transfer-Encoding", b"Connection", b"Cookie",
        b"Accept", b"User-Agent", b"X-Forwarded-For", b"Content-Type", b"ETag", b"TE"];
    const VALUES: [&[u8]; 12] = [b"0", b"12", b"12, 12", b"+5", b"chunked", b"keep-alive", b"example.org:8080", b"text/html; charset=utf-8",
        b"a=b; c=d", b"W/\"xyz\"", b"Mon, 05 Oct 2026 00:00:00 GMT", b"gzip, deflate;q=0.5"];
    let nh = if rng.gen_bool(0.1) { rng.gen_range(0..4 * maxhdr.max(1)) } else { rng.gen_range(0..maxhdr) };
    for _ in 0..nh {
        if rng.gen_bool(0.05) {
            b.push(b' ');
        }
        if rng.gen_bool(0.4) {
            // a realistic header line
            b.extend_from_slice(NAMES[rng.gen_range(0..NAMES.len())]);
            b.push(b':');
            if rng.gen_bool(0.8) { b.push(b' '); }
            b.extend_from_slice(VALUES[rng.gen_range(0..VALUES.len())]);
            eol(rng, &mut b);
            continue;
        }
        let nlen = rng.gen_range(1..24);
        b.extend(tok(rng, nlen));
        if rng.gen_bool(0.05) {
            b.push(b' ');
        }
        b.push(b':');
        for _ in 0..rng.gen_range(0..3) {
            b.push(if rng.gen_bool(0.8) { b' ' } else { b'\t' });
        }
        let n = rng.gen_range(0..50);
        for _ in 0..n {
            let c = if rng.gen_bool(0.05) { rng.gen_range(0x80u8..=0xff) } else { rng.gen_range(0x20u8..0x7f) };
            b.push(c);
        }
        if rng.gen_bool(0.1) {
            b.push(b' ');
        }
        eol(rng, &mut b);
        if rng.gen_bool(0.1) {
            b.extend_from_slice(b"  folded");
            eol(rng, &mut b);
        }
    }
    eol(rng, &mut b);
    if rng.gen_bool(0.3) {
        b.extend_from_slice(b"body\r\n\r\n");
    }
    if rng.gen_bool(0.3) && !b.is_empty() {
        let i = rng.gen_range(0..b.len());
        b[i] = [0u8, 1, 9, 10, 13, 32, 58, 127, 128, 255][rng.gen_range(0..10)];
    }
    b
}

pub fn read_harvest(path: &str, max_len: usize) -> Vec<Vec<u8>> {
    let mut out = Vec::new();
    if let Ok(f) = std::fs::File::open(path) {
        for l in std::io::BufReader::new(f).lines().map_while(Result::ok) {
            let l = l.trim();
            if l.len() % 2 != 0 {
                continue;
            }
            let b: Option<Vec<u8>> = (0..l.len() / 2).map(|i| u8::from_str_radix(&l[2 * i..2 * i + 2], 16).ok()).collect();
            if let Some(b) = b {
                if b.len() <= max_len {
                    out.push(b);
                }
            }
        }
    }
    out.sort();
    out.dedup();
    out
}

// ---------------------------------------------------------------- feed
pub fn cmd_feed(args: &[String]) {
    let out = arg(args, "--out").unwrap();
    let seed: u64 = arg(args, "--seed").and_then(|s| s.parse().ok()).unwrap_or(0);
    let events: usize = arg(args, "--events").and_then(|s| s.parse().ok()).unwrap_or(100000);
    let shards: usize = arg(args, "--shards").and_then(|s| s.parse().ok()).unwrap_or(1);
    let harvest = arg(args, "--harvest");
    let kinds: Vec<u8> = arg(args, "--kinds").unwrap_or("0,1,2,3".into()).split(',').map(|x| x.parse().unwrap()).collect();
    let mut rng = StdRng::seed_from_u64(seed ^ 0xfeed);
    let mut inputs: Vec<(u8, u8, usize, Vec<u8>)> = Vec::new();
    let mut budget = 0usize;
    if let Some(h) = harvest {
        for b in read_harvest(&h, 400) {
            for &k in &kinds {
                // a harvested buffer under the kind it most plausibly belongs to, and the others briefly
                let plausible = match k {
                    K_REQ => b.first().map(|c| c.is_ascii_uppercase()).unwrap_or(false) && !b.starts_with(b"HTTP/"),
                    K_RESP => b.starts_with(b"HTTP/"),
                    K_HDRS => b.contains(&b':') && !b.starts_with(b"HTTP/") && !b.starts_with(b"GET"),
                    _ => b.len() < 24,
                };
                if !plausible {
                    continue;
                }
                let cfgs: &[u8] = if k == K_REQ { &[0, 49] } else if k == K_RESP { &[0, 94] } else { &[0] };
                for &c in cfgs {
                    budget += b.len();
                    inputs.push((k, c, 16, b.clone()));
                }
            }
            if budget > events / 2 {
                break;
            }
        }
    }
    while budget < events {
        let kind = kinds[rng.gen_range(0..kinds.len())];
        let m = if kind == K_HDRS {
            let full = random_message(&mut rng, K_REQ, 6);
            let p = full.iter().position(|c| *c == b'\n').map(|p| p + 1).unwrap_or(0);
            full[p..].to_vec()
        } else {
            random_message(&mut rng, kind, 6)
        };
        let cfg = if rng.gen_bool(0.4) { 0 } else { rng.gen_range(0..128u8) & relevant_mask(kind) };
        let cap = if rng.gen_bool(0.7) { 16 } else { rng.gen_range(0..4) };
        budget += m.len();
        inputs.push((kind, cfg, cap, m));
    }
    let arena = Arena::new(1 << 20);
    let mut ws: Vec<BufWriter<std::fs::File>> = (0..shards).map(|i| BufWriter::new(std::fs::File::create(format!("{}.{}", out, i)).unwrap())).collect();
    let mut total = 0u64;
    for (ci, (kind, cfg, cap, data)) in inputs.iter().enumerate() {
        let w = &mut ws[ci % shards];
        writeln!(w, "{{\"ev\":\"reset\",\"kind\":{},\"cfg\":{},\"cap\":{},\"id\":{}}}", kind, cfg, if *cap >= 16 { INF as usize } else { *cap }, ci).unwrap();
        total += 1;
        let mut after_final = 0;
        for k in 1..=data.len() {
            let buf = arena.place(&data[..k], Place::End);
            let o = run(entry_of(*kind), *cfg, buf, if *cap >= 16 { 24 } else { *cap });
            writeln!(w, "{{\"ev\":\"feed\",\"b\":{},{}}}", data[k - 1], obs_json(&o, buf, *kind)).unwrap();
            total += 1;
            if o.st != ST_P {
                after_final += 1;
                if after_final > 6 {
                    break;
                }
            }
        }
    }
    for w in ws.iter_mut() {
        writeln!(w, "{{\"ev\":\"end\"}}").unwrap();
    }
    println!("{{\"inputs\":{},\"events\":{}}}", inputs.len(), total);
}

// ---------------------------------------------------------------- call (long inputs)
fn long_inputs(rng: &mut StdRng, thorough: bool) -> Vec<(u8, u8, usize, Vec<u8>)> {
    let mut v: Vec<(u8, u8, usize, Vec<u8>)> = Vec::new();
    let sizes: &[usize] = if thorough { &[4096, 16384, 66000, 70000, 140000, 300000, 1050000] } else { &[4096, 66000, 140000] };
    for &sz in sizes {
        // long request target (past 64 KiB), long header value, long header name, long reason
        let mut b = b"GET /".to_vec();
        while b.len() + 40 < sz { b.push(b'a' + (b.len() % 26) as u8); }
        b.extend_from_slice(b" HTTP/1.1\r\nHost: x\r\n\r\nbody");
        v.push((K_REQ, 0, 4, b));
        let mut b = b"HTTP/1.1 200 ".to_vec();
        while b.len() + 40 < sz { b.push(b'r'); }
        b.extend_from_slice(b"\r\nA: b\r\n\r\n");
        v.push((K_RESP, 0, 4, b));
        let mut b = b"POST /x HTTP/1.0\nLong-Value: ".to_vec();
        while b.len() + 40 < sz { b.push(if b.len() % 97 == 0 { b'\t' } else { b'v' }); }
        b.extend_from_slice(b"  \r\nLast: 1\n\n");
        v.push((K_REQ, 49, 8, b));
        let mut b = b"HTTP/1.0 404 Not Found\r\n".to_vec();
        while b.len() + 40 < sz { b.push(b'N'); }
        b.extend_from_slice(b": v\r\n\r\n");
        v.push((K_RESP, 94, 8, b));
        // a folded value spanning the whole input
        let mut b = b"HTTP/1.1 200 OK\r\nF: start\r\n".to_vec();
        while b.len() + 40 < sz { b.extend_from_slice(b"\t continued line \r\n"); }
        b.extend_from_slice(b"E: end\r\n\r\n");
        v.push((K_RESP, 8, 8, b));
        // chunk size with a long extension
        let mut b = b"1A2b;ext=".to_vec();
        while b.len() + 8 < sz { b.push(b'e'); }
        b.extend_from_slice(b"\r\n");
        v.push((K_CHUNK, 0, 0, b));
    }
    // many headers: more than 255, more than the array holds, exactly as many as it holds
    for (n, cap) in [(300usize, 400usize), (300, 300), (300, 299), (70, 64), (257, 256)] {
        let mut b = b"GET / HTTP/1.1\r\n".to_vec();
        for i in 0..n {
            b.extend_from_slice(format!("H{}: v{}\r\n", i, i % 7).as_bytes());
        }
        b.extend_from_slice(b"\r\n");
        v.push((K_REQ, 0, cap, b.clone()));
        let mut h = b[16..].to_vec();
        if rng.gen_bool(0.5) { h.extend_from_slice(b"tail"); }
        v.push((K_HDRS, 0, cap, h));
    }
    // heads made of minimal header lines (3 bytes each), array exactly as long as the line count,
    // nothing after the head; and more header lines than any fixed small limit
    // (66 000 > 2^16, 132 000 > 2^17: counters and offsets kept in a narrower integer wrap there)
    for (n, cap) in [(24usize, 24usize), (200, 200), (66000, 66000), (33000, 33001), (40000, 40000), (132000, 132000)] {
        if n > 1000 && !thorough && n != 66000 { continue; }
        let mut h: Vec<u8> = Vec::new();
        for _ in 0..n { h.extend_from_slice(b"a:\n"); }
        h.push(b'\n');
        let mut b = b"GET / HTTP/1.1\n".to_vec();
        b.extend_from_slice(&h);
        v.push((K_REQ, 0, cap, b));
        if n <= 1000 {
            let mut b = b"HTTP/1.1 200\n".to_vec();
            b.extend_from_slice(&h);
            v.push((K_RESP, 0, cap, b));
        }
        v.push((K_HDRS, 0, cap, h));
    }
    // a forbidden byte deep inside a long field that has no end yet: the verdict is Err now, not
    // "Partial until the line end shows up" (a lot of pending input is no reason to wait)
    for (kind, prefix, fill) in [(K_REQ, &b"GET /"[..], b'p'), (K_RESP, &b"HTTP/1.1 200 "[..], b'r'), (K_HDRS, &b"A: b\r\nLong-Name"[..], b'n'),
                                 (K_REQ, &b"GET / HTTP/1.1\r\nA: "[..], b'v'), (K_RESP, &b"HTTP/1.1 200 OK\r\nA: "[..], b'v'), (K_CHUNK, &b"1f;x="[..], b'e')] {
        for bad in [0u8, 0x7f] {
            if kind == K_CHUNK && bad == 0x7f { continue; }
            let mut b = prefix.to_vec();
            b.extend(std::iter::repeat(fill).take(if thorough { 70000 } else { 20000 }));
            b.push(if kind == K_CHUNK { b'\n' } else { bad });
            b.extend(std::iter::repeat(fill).take(9000));
            v.push((kind, 0, 8, b));
        }
    }
    // counts above any small fixed limit, each under the option that makes the shape legal:
    // dropped lines, continuation lines of one header, delimiter spaces, blanks before the first
    // header name and after a header name
    {
        let mut b = b"GET / HTTP/1.1\r\n".to_vec();
        for _ in 0..5000 { b.extend_from_slice(b"b d\r\n"); }
        b.extend_from_slice(b"Host: a\r\n\r\n");
        v.push((K_REQ, 32, 8, b));
        let mut b = b"HTTP/1.1 200 OK\r\n".to_vec();
        for _ in 0..5000 { b.extend_from_slice(b"b d\n"); }
        b.extend_from_slice(b"Host: a\r\n\r\n");
        v.push((K_RESP, 64, 8, b));
        let mut b = b"HTTP/1.1 200 OK\r\nA: x\r\n".to_vec();
        for _ in 0..1500 { b.extend_from_slice(b" y\r\n"); }
        b.extend_from_slice(b"B: z\r\n\r\n");
        v.push((K_RESP, 8, 8, b));
        let sp = |n: usize| -> Vec<u8> { vec![b' '; n] };
        let mut b = b"HTTP/1.1 200 ".to_vec(); b.extend(sp(9000)); b.extend_from_slice(b"OK\r\n\r\n");
        v.push((K_RESP, 2, 8, b.clone()));
        v.push((K_RESP, 0, 8, b));
        let mut b = b"HTTP/1.1".to_vec(); b.extend(sp(9000)); b.extend_from_slice(b"200 OK\r\n\r\n");
        v.push((K_RESP, 2, 8, b));
        let mut b = b"GET".to_vec(); b.extend(sp(9000)); b.push(b'/'); b.extend(sp(9000)); b.extend_from_slice(b"HTTP/1.1\r\n\r\n");
        v.push((K_REQ, 1, 8, b));
        let mut b = b"GET / HTTP/1.1\r\n".to_vec(); b.extend(sp(9000)); b.extend_from_slice(b"A: b\r\n\r\n");
        v.push((K_REQ, 16, 8, b));
        let mut b = b"HTTP/1.1 200 OK\r\nA".to_vec(); b.extend(sp(9000)); b.extend_from_slice(b": b\r\n\r\n");
        v.push((K_RESP, 4, 8, b));
        let mut b = b"HTTP/1.1 200 OK\r\nA:".to_vec(); b.extend(sp(9000)); b.extend_from_slice(b"b"); b.extend(sp(9000)); b.extend_from_slice(b"\r\n\r\n");
        v.push((K_RESP, 0, 8, b));
    }
    // random long messages
    for _ in 0..(if thorough { 60 } else { 12 }) {
        let kind = if rng.gen_bool(0.5) { K_REQ } else { K_RESP };
        let m = random_message(rng, kind, 60);
        let cfg = if rng.gen_bool(0.5) { 0 } else { rng.gen_range(0..128u8) & relevant_mask(kind) };
        v.push((kind, cfg, 80, m));
    }
    v
}

pub fn cmd_call(args: &[String]) {
    let out = arg(args, "--out").unwrap();
    let seed: u64 = arg(args, "--seed").and_then(|s| s.parse().ok()).unwrap_or(0);
    let shards: usize = arg(args, "--shards").and_then(|s| s.parse().ok()).unwrap_or(1);
    let thorough = args.iter().any(|a| a == "--thorough");
    let mut rng = StdRng::seed_from_u64(seed ^ 0xca11);
    let inputs = long_inputs(&mut rng, thorough);
    let arena = Arena::new(3 << 20);
    let mut ws: Vec<BufWriter<std::fs::File>> = (0..shards).map(|i| BufWriter::new(std::fs::File::create(format!("{}.{}", out, i)).unwrap())).collect();
    let mut bytes_total = 0usize;
    // biggest inputs first, round-robin, so that shards are balanced
    let mut order: Vec<usize> = (0..inputs.len()).collect();
    order.sort_by_key(|i| std::cmp::Reverse(inputs[*i].3.len()));
    for (k, &i) in order.iter().enumerate() {
        let (kind, cfg, cap, data) = &inputs[i];
        let w = &mut ws[k % shards];
        let buf = arena.place(data, Place::End);
        let real_cap = (*cap).min(MAX_SLOTS - 4);
        if data.len() > (3 << 20) - 8192 { continue; }
        let o = run(entry_of(*kind), *cfg, buf, real_cap);
        writeln!(w, "{{\"ev\":\"begin\",\"kind\":{},\"cfg\":{},\"cap\":{},\"len\":{}}}", kind, cfg, real_cap, data.len()).unwrap();
        for ch in data.chunks(256) {
            writeln!(w, "{{\"ev\":\"bytes\",\"b\":[{}]}}", ch.iter().map(|x| x.to_string()).collect::<Vec<_>>().join(",")).unwrap();
        }
        // the other entry points of the kind (plain parse, uninitialised array): same call, same result
        let mut disagree = 0;
        for &e in entries_of(*kind, *cfg == 0) {
            if e == entry_of(*kind) { continue; }
            let o2 = run(e, *cfg, buf, real_cap);
            if crate::judge::same_result(&o, buf, &o2, buf).is_some() { disagree += 1; }
        }
        writeln!(w, "{{\"ev\":\"end\",{},\"entries\":{},\"twin\":-1}}", obs_json(&o, buf, *kind), disagree).unwrap();
        bytes_total += data.len();
    }
    // twins: the same field pumped to more than 4 GiB (aliased mapping), compared with the small
    // input recorded here (spec/Pump.tla)
    let twins: [(u8, u8, usize, &[u8], u8, &[u8]); 5] = [
        (K_REQ, 0, 8, b"GET / HTTP/1.1\r\nA: b\r\nX-Big: ", b'v', b"\r\nC: d\r\n\r\n"),
        (K_HDRS, 0, 8, b"A: b\r\nX-Big: ", b'v', b"\r\nC: d\r\n\r\n"),
        (K_REQ, 0, 8, b"GET /", b'p', b" HTTP/1.1\r\nA: b\r\n\r\n"),
        (K_RESP, 0, 8, b"HTTP/1.1 200 ", b'r', b"\r\nA: b\r\n\r\n"),
        (K_RESP, 64, 8, b"HTTP/1.1 200 OK\r\nbad line ", b'z', b"\r\nA: b\r\n\r\n"),
    ];
    let mut twins_checked = 0;
    let mut twins_skipped = 0;
    for (ti, (kind, cfg, cap, prefix, fill, suffix)) in twins.iter().enumerate() {
        if !thorough && (ti as u64 + seed) % 5 >= 3 { continue; }      // quick: three of the five per run
        let k = 1000usize;
        let mut data = prefix.to_vec();
        data.extend(std::iter::repeat(*fill).take(k));
        data.extend_from_slice(suffix);
        let w = &mut ws[ti % shards];
        let buf = arena.place(&data, Place::End);
        let o = run(entry_of(*kind), *cfg, buf, *cap);
        let tw = twin_ok(*kind, *cfg, *cap, prefix, *fill, suffix, &o, buf, k);
        if tw < 0 { twins_skipped += 1; } else { twins_checked += 1; }
        writeln!(w, "{{\"ev\":\"begin\",\"kind\":{},\"cfg\":{},\"cap\":{},\"len\":{}}}", kind, cfg, cap, data.len()).unwrap();
        for ch in data.chunks(256) {
            writeln!(w, "{{\"ev\":\"bytes\",\"b\":[{}]}}", ch.iter().map(|x| x.to_string()).collect::<Vec<_>>().join(",")).unwrap();
        }
        writeln!(w, "{{\"ev\":\"end\",{},\"entries\":0,\"twin\":{}}}", obs_json(&o, buf, *kind), tw).unwrap();
    }
    println!("{{\"calls\":{},\"bytes\":{},\"twins_checked\":{},\"twins_skipped\":{}}}", inputs.len(), bytes_total, twins_checked, twins_skipped);
}


// ---------------------------------------------------------------- twins (pumping lemma, spec/Pump.tla)
/// `prefix . fill^k . suffix` parsed with k = 1000 (ordinary buffer; this is the input whose bytes
/// go into the trace) and with K = 2^32 + 5 (aliased mapping): by the pumping lemma the two
/// results are equal up to a shift of K - k of every offset at or behind the run.
fn twin_ok(kind: u8, cfg: u8, cap: usize, prefix: &[u8], fill: u8, suffix: &[u8], small: &Obs, small_buf: &[u8], k: usize) -> i32 {
    let big_k: usize = (1usize << 32) + 5;
    let al = match crate::alias::Aliased::new(prefix, fill, big_k, suffix) {
        Some(a) => a,
        None => return -1,
    };
    let bb = al.bytes();
    let big = run(entry_of(kind), cfg, bb, cap);
    if big.panicked || small.panicked { return 0; }
    let d = big_k - k;
    let run_start = prefix.len();
    let f = |x: usize| -> usize { if x <= run_start { x } else { x + d } };
    let map = |s: &Option<Sl>, b: &[u8]| -> Option<(usize, usize, usize)> { s.map(|x| x.within(b).map(|w| (w.0, w.1, x.len)).unwrap_or((usize::MAX, usize::MAX, x.len))) };
    let same_span = |a: &Option<Sl>, b: &Option<Sl>| -> bool {
        match (map(a, small_buf), map(b, bb)) {
            (None, None) => true,
            (Some(x), Some(y)) => {
                if x.2 == 0 && y.2 == 0 { true } else { x.0 != usize::MAX && y.0 == f(x.0) && y.1 == f(x.1) }
            }
            _ => false,
        }
    };
    let mut ok = big.st == small.st && big.err == small.err;
    if small.st == ST_C { ok = ok && big.n == small.n + d; }
    ok = ok && same_span(&small.method, &big.method) && same_span(&small.path, &big.path) && same_span(&small.reason, &big.reason);
    ok = ok && small.version == big.version && small.code == big.code && small.exposed.len() == big.exposed.len();
    if ok {
        for i in 0..small.exposed.len() {
            ok = ok && same_span(&Some(small.exposed[i].0), &Some(big.exposed[i].0)) && same_span(&Some(small.exposed[i].1), &Some(big.exposed[i].1));
        }
    }
    ok = ok && big.allocs == 0;
    ok as i32
}

// ---------------------------------------------------------------- session
fn short_message(rng: &mut StdRng, kind: u8) -> Vec<u8> {
    let mut b: Vec<u8> = Vec::new();
    if kind == K_REQ {
        if rng.gen_bool(0.15) { b.extend_from_slice(b"\r\n"); }
        b.extend_from_slice([&b"GET"[..], b"POST", b"X", b"PATCH", b"PATCHWORK", b"OPTIONS", b"OPTION", b"GETX", b"POSTS"][rng.gen_range(0..9)]);
        b.push(b' ');
        if rng.gen_bool(0.2) { b.push(b' '); }
        b.push(b'/');
        for _ in 0..rng.gen_range(0..4) { b.push(rng.gen_range(b'a'..=b'z')); }
        b.push(b' ');
        if rng.gen_bool(0.2) { b.extend_from_slice(b"  "); }
        b.extend_from_slice(b"HTTP/1.");
        b.push(if rng.gen_bool(0.5) { b'0' } else { b'1' });
    } else {
        b.extend_from_slice(b"HTTP/1.");
        b.push(if rng.gen_bool(0.5) { b'0' } else { b'1' });
        b.push(b' ');
        if rng.gen_bool(0.2) { b.push(b' '); }
        b.extend_from_slice(b"20");
        b.push(b'0' + rng.gen_range(0..10));
        if rng.gen_bool(0.7) {
            b.push(b' ');
            if rng.gen_bool(0.2) { b.push(b' '); }
            b.extend_from_slice(b"OK");
        }
    }
    b.extend_from_slice(if rng.gen_bool(0.5) { b"\r\n" } else { b"\n" });
    for _ in 0..rng.gen_range(0..5) {
        b.push(rng.gen_range(b'a'..=b'z'));
        b.push(b':');
        if rng.gen_bool(0.5) { b.push(b' '); }
        for _ in 0..rng.gen_range(0..3) { b.push(rng.gen_range(b'0'..=b'9')); }
        b.push(b'\n');
        if rng.gen_bool(0.15) { b.extend_from_slice(b" f\n"); }
    }
    b.push(b'\n');
    if rng.gen_bool(0.2) && !b.is_empty() {
        let i = rng.gen_range(0..b.len());
        b[i] = [0u8, 9, 10, 13, 32, 58, 127, 200][rng.gen_range(0..8)];
    }
    if rng.gen_bool(0.4) {
        let k = rng.gen_range(0..=b.len());
        b.truncate(k);
    }
    b
}

/// a message whose fields are all longer than four vector widths
fn long_fields_message(rng: &mut StdRng, kind: u8) -> Vec<u8> {
    let mut b: Vec<u8> = Vec::new();
    let run = |rng: &mut StdRng, n: usize, b: &mut Vec<u8>| { for _ in 0..n { b.push(rng.gen_range(b'a'..=b'z')); } };
    if kind == K_REQ {
        b.extend_from_slice([&b"GET /"[..], b"PATCH /", b"PATCHWORK /", b"DELETE /"][rng.gen_range(0..4)]);
        let n = rng.gen_range(64..140);
        run(rng, n, &mut b);
        b.extend_from_slice(b" HTTP/1.1\r\n");
    } else {
        b.extend_from_slice(b"HTTP/1.1 200 ");
        let n = rng.gen_range(64..140);
        run(rng, n, &mut b);
        b.extend_from_slice(b"\r\n");
    }
    for _ in 0..rng.gen_range(1..4) {
        let n = rng.gen_range(1..40);
        run(rng, n, &mut b);
        b.extend_from_slice(b": ");
        let n = rng.gen_range(40..120);
        run(rng, n, &mut b);
        b.extend_from_slice(b"\r\n");
    }
    b.extend_from_slice(b"\r\n");
    b
}

/// call histories on one re-used value and array
pub fn cmd_session(args: &[String]) {
    use std::mem::MaybeUninit;
    let out = arg(args, "--out").unwrap();
    let seed: u64 = arg(args, "--seed").and_then(|s| s.parse().ok()).unwrap_or(0);
    let sessions: usize = arg(args, "--sessions").and_then(|s| s.parse().ok()).unwrap_or(1000);
    let shards: usize = arg(args, "--shards").and_then(|s| s.parse().ok()).unwrap_or(1);
    let mut rng = StdRng::seed_from_u64(seed ^ 0x5e55);
    let mut ws: Vec<BufWriter<std::fs::File>> = (0..shards).map(|i| BufWriter::new(std::fs::File::create(format!("{}.{}", out, i)).unwrap())).collect();
    let mut calls = 0u64;
    for si in 0..sessions {
        let w = &mut ws[si % shards];
        let kind = if rng.gen_bool(0.5) { K_REQ } else { K_RESP };
        let cap = [0usize, 1, 2, 3, 4, 8][rng.gen_range(0..6)];
        let ncalls = rng.gen_range(1..=5);
        // plan: (uninit?, ucap, cfg, buffer); the README loop (growing prefixes of one message) is one shape
        let readme = rng.gen_bool(0.3);
        let full = short_message(&mut rng, kind);
        // third shape: ONE receive buffer at a fixed address, REFILLED between the calls with
        // messages of the same length (long fields; each call's message is the previous one with
        // a few bytes changed): whatever a value remembers about "this address, this length" is stale
        let refill = !readme && rng.gen_bool(0.3);
        let mut long = long_fields_message(&mut rng, kind);
        let mut plan: Vec<(bool, usize, u8, Vec<u8>)> = Vec::new();
        for ci in 0..ncalls {
            let buf = if readme {
                let k = full.len() * (ci + 1) / ncalls;
                full[..k].to_vec()
            } else if refill {
                if ci > 0 {
                    for _ in 0..rng.gen_range(1..=2) {
                        let i = rng.gen_range(0..long.len());
                        long[i] = [0xC3u8, 0xFF, 0x00, 0x7F, b' ', b'\r', b'\n', b':', b'a', b'Z', 0x80, b'\t'][rng.gen_range(0..12)];
                    }
                }
                long.clone()
            } else {
                short_message(&mut rng, kind)
            };
            let uninit = rng.gen_bool(0.3);
            let cfg = if rng.gen_bool(0.5) { 0 } else { rng.gen_range(0..128u8) & relevant_mask(kind) };
            plan.push((uninit, rng.gen_range(0..5), cfg, buf));
        }
        writeln!(w, "{{\"ev\":\"session\",\"kind\":{},\"cap\":{}}}", kind, cap).unwrap();
        // the README loop re-parses a growing prefix of ONE allocation (same start address every
        // time); the other sessions use a separate allocation per call
        let store: Vec<Vec<u8>> = plan.iter().map(|p| p.3.clone()).collect();
        let bufs: Vec<&[u8]> = if readme {
            plan.iter().map(|p| &full[..p.3.len()]).collect()
        } else {
            store.iter().map(|v| &v[..]).collect()
        };
        // with the default configuration also go through the convenience entry points
        let mut rawbuf: Vec<u8> = vec![0u8; long.len() + 1];
        let rawp = rawbuf.as_mut_ptr();
        let _ = &mut rawbuf;
        let plain: Vec<bool> = plan.iter().map(|p| p.2 == 0 && (p.3.len() + si) % 2 == 0).collect();
        let mut arr: Vec<httparse::Header> = (0..cap).map(sentinel).collect();
        let arr_base = arr.as_ptr() as usize;
        let mut uns: Vec<Vec<MaybeUninit<httparse::Header>>> = plan.iter().map(|p| (0..p.1).map(|i| MaybeUninit::new(sentinel(i))).collect()).collect();
        let mut un_iter = uns.iter_mut();
        macro_rules! log_call {
            ($w:expr, $o:expr, $buf:expr, $kind:expr, $p:expr, $exp:expr, $whole:expr) => {
                writeln!($w, "{{\"ev\":\"scall\",\"uninit\":{},\"ucap\":{},\"cfg\":{},\"buf\":[{}],{},\"exp\":{},\"whole\":{}}}",
                    $p.0 as u8, $p.1, $p.2, $buf.iter().map(|x| x.to_string()).collect::<Vec<_>>().join(","),
                    obs_json(&$o, $buf, $kind), $exp, $whole as u8).unwrap();
            };
        }
        if kind == K_REQ {
            let mut req = httparse::Request::new(&mut arr[..]);
            for (ci, p) in plan.iter().enumerate() {
                let buf: &[u8] = if refill {
                    unsafe {
                        std::ptr::copy_nonoverlapping(p.3.as_ptr(), rawp, p.3.len());
                        std::slice::from_raw_parts(rawp as *const u8, p.3.len())
                    }
                } else { bufs[ci] };
                let un = un_iter.next().unwrap();
                let cfg = make_config(p.2);
                let before_ptr = req.headers.as_ptr() as usize;
                let before_len = req.headers.len();
                let r: Result<_, ()> = Ok(match (p.0, plain[ci]) {
                    (true, false) => cfg.parse_request_with_uninit_headers(&mut req, buf, &mut un[..]),
                    (true, true) => req.parse_with_uninit_headers(buf, &mut un[..]),
                    (false, false) => cfg.parse_request(&mut req, buf),
                    (false, true) => req.parse(buf),
                });
                let mut o = Obs::default();
                match r {
                    Ok(Ok(httparse::Status::Complete(n))) => { o.st = ST_C; o.n = n; }
                    Ok(Ok(httparse::Status::Partial)) => o.st = ST_P,
                    Ok(Err(e)) => { o.st = ST_E; o.err = match e { httparse::Error::Token => 1, httparse::Error::Version => 2, httparse::Error::NewLine => 3, httparse::Error::Status => 4, httparse::Error::HeaderName => 5, httparse::Error::HeaderValue => 6, httparse::Error::TooManyHeaders => 7 }; }
                    Err(_) => o.panicked = true,
                }
                o.method = req.method.map(|m| Sl::of(m.as_bytes()));
                o.path = req.path.map(|m| Sl::of(m.as_bytes()));
                o.version = req.version;
                o.exposed = req.headers.iter().map(|h| (Sl::of(h.name.as_bytes()), Sl::of(h.value))).collect();
                let whole = req.headers.as_ptr() as usize == before_ptr && req.headers.len() == before_len;
                let _ = arr_base;
                log_call!(w, o, buf, kind, p, req.headers.len(), whole);
                calls += 1;
                if o.panicked { break; }
            }
        } else {
            let mut resp = httparse::Response::new(&mut arr[..]);
            for (ci, p) in plan.iter().enumerate() {
                let buf: &[u8] = if refill {
                    unsafe {
                        std::ptr::copy_nonoverlapping(p.3.as_ptr(), rawp, p.3.len());
                        std::slice::from_raw_parts(rawp as *const u8, p.3.len())
                    }
                } else { bufs[ci] };
                let un = un_iter.next().unwrap();
                let cfg = make_config(p.2);
                let before_ptr = resp.headers.as_ptr() as usize;
                let before_len = resp.headers.len();
                let r: Result<_, ()> = Ok(match (p.0, plain[ci]) {
                    (true, _) => cfg.parse_response_with_uninit_headers(&mut resp, buf, &mut un[..]),
                    (false, false) => cfg.parse_response(&mut resp, buf),
                    (false, true) => resp.parse(buf),
                });
                let mut o = Obs::default();
                match r {
                    Ok(Ok(httparse::Status::Complete(n))) => { o.st = ST_C; o.n = n; }
                    Ok(Ok(httparse::Status::Partial)) => o.st = ST_P,
                    Ok(Err(e)) => { o.st = ST_E; o.err = match e { httparse::Error::Token => 1, httparse::Error::Version => 2, httparse::Error::NewLine => 3, httparse::Error::Status => 4, httparse::Error::HeaderName => 5, httparse::Error::HeaderValue => 6, httparse::Error::TooManyHeaders => 7 }; }
                    Err(_) => o.panicked = true,
                }
                o.version = resp.version;
                o.code = resp.code;
                o.reason = resp.reason.map(|m| Sl::of(m.as_bytes()));
                o.exposed = resp.headers.iter().map(|h| (Sl::of(h.name.as_bytes()), Sl::of(h.value))).collect();
                let whole = resp.headers.as_ptr() as usize == before_ptr && resp.headers.len() == before_len;
                log_call!(w, o, buf, kind, p, resp.headers.len(), whole);
                calls += 1;
                if o.panicked { break; }
            }
        }
    }
    println!("{{\"sessions\":{},\"calls\":{}}}", sessions, calls);
}
// ---------------------------------------------------------------- race
/// One cold start: N threads make their first parse call together.  Prints one
/// "proc" event on stdout (the caller starts a fresh process per event).
pub fn cmd_race(args: &[String]) {
    use std::sync::{Arc, Barrier};
    let n: usize = arg(args, "--threads").and_then(|s| s.parse().ok()).unwrap_or(16);
    let barrier = Arc::new(Barrier::new(n));
    let msg: &'static [u8] = b"GET /a/rather/long/target/so/that/the/vector/loop/runs/0123456789 HTTP/1.1\r\nHost: example.org\r\nAccept: text/html,application/xhtml+xml;q=0.9\r\n\r\n";
    let mut hs = Vec::new();
    for _ in 0..n {
        let b = barrier.clone();
        hs.push(std::thread::spawn(move || {
            httparse::verif::race_enable(true);
            b.wait();
            let mut h = [httparse::EMPTY_HEADER; 8];
            let mut req = httparse::Request::new(&mut h);
            let r = req.parse(msg);
            let sig = format!("{:?}|{:?}|{:?}|{:?}|{}", r, req.method, req.path, req.version, req.headers.iter().map(|x| format!("{}={:?}", x.name, x.value)).collect::<Vec<_>>().join(","));
            httparse::verif::race_enable(false);
            (httparse::verif::take_race().to_vec(), sig)
        }));
    }
    let res: Vec<(Vec<(u8, u8)>, String)> = hs.into_iter().map(|h| h.join().unwrap()).collect();
    let same = res.iter().all(|r| r.1 == res[0].1) && res[0].1.starts_with("Ok(Complete(");
    let cpu = if std::is_x86_feature_detected!("avx2") { 1 } else if std::is_x86_feature_detected!("sse4.2") { 2 } else { 3 };
    let th: Vec<String> = res.iter().map(|r| format!("[{}]", r.0.iter().map(|o| format!("[{},{}]", o.0, o.1)).collect::<Vec<_>>().join(","))).collect();
    println!("{{\"ev\":\"proc\",\"cpu\":{},\"threads\":[{}],\"same\":{}}}", cpu, th.join(","), same as u8);
}
// ---------------------------------------------------------------- scan
/// aggregated scanner results of every compiled-in backend (hook H2)
pub fn cmd_scan(args: &[String]) {
    let out = arg(args, "--out").unwrap();
    let shards: usize = arg(args, "--shards").and_then(|s| s.parse().ok()).unwrap_or(1);
    let thorough = args.iter().any(|a| a == "--thorough");
    let seed: u64 = arg(args, "--seed").and_then(|s| s.parse().ok()).unwrap_or(0);
    let lens: Vec<usize> = if thorough { (0..=100).collect() } else {
        let mut v: Vec<usize> = (0..=40).collect();
        v.extend_from_slice(&[47, 48, 49, 63, 64, 65, 66, 95, 96, 97, 100, 128, 200]);
        v
    };
    let lens: Vec<usize> = if thorough { let mut v = lens; v.extend_from_slice(&[127, 128, 129, 160, 192, 255, 256, 257, 300]); v } else { lens };
    // (every alignment of whole messages is the replayer's `alignall`; here the end-flush placement
    // plus a handful of start alignments around the 8 / 16 / 32-byte boundaries)
    let aligns: Vec<usize> = if thorough { vec![0, 1, 7, 8, 15, 16, 31, (seed % 32) as usize] } else { vec![(seed % 32) as usize, ((seed / 32 + 13) % 32) as usize] };
    let arena = Arena::new(1 << 16);
    let mut ws: Vec<BufWriter<std::fs::File>> = (0..shards).map(|i| BufWriter::new(std::fs::File::create(format!("{}.{}", out, i)).unwrap())).collect();
    let mut events = 0u64;
    let mut calls = 0u64;
    let mut backends_seen = Vec::new();
    let mut data = vec![0u8; 512];
    for backend in 0u8..4 {
        if httparse::verif::scan(backend, 0, b"abc").is_none() {
            continue;
        }
        backends_seen.push(backend);
        for cls in 0u8..3 {
            if httparse::verif::scan(backend, cls, b"abc").is_none() {
                continue;
            }
            for &n in &lens {
                for fill in [97u8, 9u8] {
                    // p = 0: no offender (one event); p in 1..=n; optional second offender
                    for p in 0..=n {
                        let mut seconds: Vec<(usize, u8)> = if p > 0 && p + 1 <= n && (thorough || n % 7 == 3) {
                            vec![(0, 0), (p + 1, 0), ((p + 9).min(n), 127)]
                        } else {
                            vec![(0, 0)]
                        };
                        // a second, in-class high byte exactly one word / one 16-byte lane away (code that
                        // folds two lanes or words into one test before looking for the offender)
                        if p > 0 && n >= 16 && n < 127 && (thorough || n % 7 == 3) {
                            for d in [8usize, 16] {
                                if p + d <= n { seconds.push((p + d, 0x80)); }
                                if p > d { seconds.push((p - d, 0xff)); }
                            }
                        }
                        // long buffers: a second byte one, two or three vector widths away, both an
                        // offending one and an in-class high one (unrolled loops combine blocks)
                        if n >= 127 {
                            if fill != 97 || (!thorough && p % 3 != 1) { continue; }
                            if p > 0 {
                                for d in [16usize, 32, 64, 96] {
                                    if p + d <= n { seconds.push((p + d, 0x80)); if thorough || d == 64 { seconds.push((p + d, 0x7f)); } }
                                    if p > d && (thorough || d == 64 || d == 16) { seconds.push((p - d, 0xff)); }
                                }
                            }
                        }
                        for (si, (q, qb)) in seconds.into_iter().enumerate() {
                            if q == p { continue; }
                            for (ai, &align) in aligns.iter().enumerate() {
                                if (fill == 9 || n >= 127) && ai > 0 { continue; }
                                // the lane-distance seconds (index 3 and up) at the end-flush placement only
                                if n < 127 && si >= 3 && ai > 0 { continue; }
                                let mut stops = [0usize; 256];
                                for b in 0..256usize {
                                    for i in 0..n { data[i] = fill; }
                                    if q > 0 { data[q - 1] = qb; }
                                    if p > 0 { data[p - 1] = b as u8; }
                                    // end flush against the guard page for align 0, else inside mapped memory
                                    let buf = arena.place(&data[..n], if ai == 0 { Place::End } else { Place::Align(align) });
                                    stops[b] = httparse::verif::scan(backend, cls, buf).unwrap();
                                    calls += 1;
                                    if p == 0 { for x in 1..256 { stops[x] = stops[0]; } break; }
                                }
                                let mut runs = String::new();
                                let mut i = 0;
                                while i < 256 {
                                    let mut j = i;
                                    while j < 256 && stops[j] == stops[i] { j += 1; }
                                    if !runs.is_empty() { runs.push(','); }
                                    runs.push_str(&format!("[{},{}]", stops[i], j - i));
                                    i = j;
                                }
                                let w = &mut ws[(events as usize) % shards];
                                writeln!(w, "{{\"ev\":\"scan\",\"backend\":{},\"cls\":{},\"n\":{},\"p\":{},\"fill\":{},\"q\":{},\"qb\":{},\"align\":{},\"runs\":[{}]}}",
                                    backend, cls, n, p, fill, q, qb, if ai == 0 { 99 } else { align }, runs).unwrap();
                                events += 1;
                            }
                        }
                    }
                }
            }
        }
    }
    // every PAIR of adjacent byte values at every lane of a word (and across the word boundary):
    // block arithmetic lets a lane influence its neighbour through a borrow or carry, and which
    // pairs do so depends on the constants of the class (`-` next to `,` in a name, DEL next to
    // 0x80 in a value).  qb at lane p-1 is fixed per event, b at lane p sweeps all 256 values:
    // 256 x 256 pairs per lane, class and backend.
    {
        let n = 12usize;
        for backend in 0u8..4 {
            if httparse::verif::scan(backend, 0, b"abc").is_none() { continue; }
            for cls in 0u8..3 {
                if httparse::verif::scan(backend, cls, b"abc").is_none() { continue; }
                for p in 2..=9usize {
                    if !thorough && (p + seed as usize) % 2 == 1 && p != 9 { continue; }
                    for qb in 0..=255u8 {
                        let q = p - 1;
                        let mut stops = [0usize; 256];
                        for b in 0..256usize {
                            for i in 0..n { data[i] = 97; }
                            data[q - 1] = qb;
                            data[p - 1] = b as u8;
                            let buf = arena.place(&data[..n], Place::End);
                            stops[b] = httparse::verif::scan(backend, cls, buf).unwrap();
                            calls += 1;
                        }
                        let mut runs = String::new();
                        let mut i = 0;
                        while i < 256 {
                            let mut j = i;
                            while j < 256 && stops[j] == stops[i] { j += 1; }
                            if !runs.is_empty() { runs.push(','); }
                            runs.push_str(&format!("[{},{}]", stops[i], j - i));
                            i = j;
                        }
                        let w = &mut ws[(events as usize) % shards];
                        writeln!(w, "{{\"ev\":\"scan\",\"backend\":{},\"cls\":{},\"n\":{},\"p\":{},\"fill\":97,\"q\":{},\"qb\":{},\"align\":99,\"runs\":[{}]}}",
                            backend, cls, n, p, q, qb, runs).unwrap();
                        events += 1;
                    }
                }
            }
        }
    }
    // word level: all prefixes of length 7 over a boundary-value alphabet, then every byte,
    // on the word-at-a-time backend (and, after a 32-byte in-class run, as the tail of the
    // selected provider)
    let alpha: Vec<u8> = if thorough { vec![0x09, 0x1f, 0x20, 0x7f, 0x80, 0xff] } else { vec![0x09, 0x1f, 0x7f, 0x80, 0xff] };
    let plen = 7usize;
    let total = alpha.len().pow(plen as u32);
    for &(backend, lead) in &[(1u8, 0usize), (0u8, 32usize)] {
        if httparse::verif::scan(backend, 0, b"abc").is_none() { continue; }
        if lead > 0 && !thorough { continue; }
        for cls in 0u8..3 {
            for code in 0..total {
                let mut pre = [0u8; 7];
                let mut c = code;
                for i in 0..plen { pre[i] = alpha[c % alpha.len()]; c /= alpha.len(); }
                let n = lead + plen + 1;
                for i in 0..lead { data[i] = b'a'; }
                data[lead..lead + plen].copy_from_slice(&pre);
                let mut stops = [0usize; 256];
                for b in 0..256usize {
                    data[lead + plen] = b as u8;
                    let buf = arena.place(&data[..n], Place::End);
                    stops[b] = httparse::verif::scan(backend, cls, buf).unwrap();
                    calls += 1;
                }
                let mut runs = String::new();
                let mut i = 0;
                while i < 256 {
                    let mut j = i;
                    while j < 256 && stops[j] == stops[i] { j += 1; }
                    if !runs.is_empty() { runs.push(','); }
                    runs.push_str(&format!("[{},{}]", stops[i], j - i));
                    i = j;
                }
                let mut prefix: Vec<String> = (0..lead).map(|_| "97".to_string()).collect();
                prefix.extend(pre.iter().map(|x| x.to_string()));
                let w = &mut ws[(events as usize) % shards];
                writeln!(w, "{{\"ev\":\"scanw\",\"backend\":{},\"cls\":{},\"pre\":[{}],\"runs\":[{}]}}", backend, cls, prefix.join(","), runs).unwrap();
                events += 1;
            }
        }
    }
    println!("{{\"events\":{},\"calls\":{},\"backends\":{:?},\"provider\":\"{}\"}}", events, calls, backends_seen, httparse::verif::provider());
}

// ---------------------------------------------------------------- config builder histories
const PROBES: [(u8, &[u8]); 12] = [
    (K_REQ, b"GET  / HTTP/1.1\r\n\r\n"),
    (K_RESP, b"HTTP/1.1  200 OK\r\n\r\n"),
    (K_RESP, b"HTTP/1.1 200 OK\r\nA : b\r\n\r\n"),
    (K_RESP, b"HTTP/1.1 200 OK\r\nA: b\r\n c\r\n\r\n"),
    (K_REQ, b"GET / HTTP/1.1\r\n A: b\r\n\r\n"),
    (K_RESP, b"HTTP/1.1 200 OK\r\n A: b\r\n\r\n"),
    (K_REQ, b"GET / HTTP/1.1\r\nA B: c\r\nD: e\r\n\r\n"),
    (K_RESP, b"HTTP/1.1 200 OK\r\nA B: c\r\nD: e\r\n\r\n"),
    (K_REQ, b"GET / HTTP/1.1\r\nA: b\r\n\r\n"),
    (K_REQ, b"GET / HTTP/1.1\r\nA : b\r\n c\r\n\r\n"),
    (K_RESP, b"HTTP/1.1 200  OK\r\n\tA : b\r\n\tc\r\nX Y\r\n\r\n"),
    (K_REQ, b"GET   /  HTTP/1.1\r\n\tA: b\r\nX Y\r\n\r\n"),
];

fn probe_json(cfg: &httparse::ParserConfig, pi: usize) -> String {
    let (kind, b) = PROBES[pi];
    let mut hs = [httparse::EMPTY_HEADER; 16];
    let (st, n, err, hc) = if kind == K_REQ {
        let mut r = httparse::Request::new(&mut hs);
        match cfg.parse_request(&mut r, b) {
            Ok(httparse::Status::Complete(n)) => (1, n, 0, r.headers.len()),
            Ok(httparse::Status::Partial) => (0, 0, 0, 0),
            Err(e) => (2, 0, err_id_pub(e), 0),
        }
    } else {
        let mut r = httparse::Response::new(&mut hs);
        match cfg.parse_response(&mut r, b) {
            Ok(httparse::Status::Complete(n)) => (1, n, 0, r.headers.len()),
            Ok(httparse::Status::Partial) => (0, 0, 0, 0),
            Err(e) => (2, 0, err_id_pub(e), 0),
        }
    };
    format!("{{\"ev\":\"probe\",\"kind\":{},\"b\":[{}],\"st\":{},\"n\":{},\"err\":{},\"hc\":{}}}",
        kind, b.iter().map(|x| x.to_string()).collect::<Vec<_>>().join(","), st, n, err, hc)
}

fn set_opt(c: &mut httparse::ParserConfig, o: usize, v: bool) {
    match o {
        0 => { c.allow_multiple_spaces_in_request_line_delimiters(v); }
        1 => { c.allow_multiple_spaces_in_response_status_delimiters(v); }
        2 => { c.allow_spaces_after_header_name_in_responses(v); }
        3 => { c.allow_obsolete_multiline_headers_in_responses(v); }
        4 => { c.allow_space_before_first_header_name(v); }
        5 => { c.ignore_invalid_headers_in_requests(v); }
        _ => { c.ignore_invalid_headers_in_responses(v); }
    }
}

fn get_opt(c: &httparse::ParserConfig, o: usize) -> Option<bool> {
    match o {
        0 => Some(c.multiple_spaces_in_request_line_delimiters_are_allowed()),
        1 => Some(c.multiple_spaces_in_response_status_delimiters_are_allowed()),
        3 => Some(c.obsolete_multiline_headers_in_responses_are_allowed()),
        4 => Some(c.space_before_first_header_name_are_allowed()),
        _ => None,
    }
}

/// histories of the ParserConfig builder: default / setters (also chained) / clone / swap,
/// observed through the getters and through probe messages
pub fn cmd_config(args: &[String]) {
    let out = arg(args, "--out").unwrap();
    let seed: u64 = arg(args, "--seed").and_then(|s| s.parse().ok()).unwrap_or(0);
    let sessions: usize = arg(args, "--sessions").and_then(|s| s.parse().ok()).unwrap_or(500);
    let shards: usize = arg(args, "--shards").and_then(|s| s.parse().ok()).unwrap_or(1);
    let mut rng = StdRng::seed_from_u64(seed ^ 0xc0f1);
    let mut ws: Vec<BufWriter<std::fs::File>> = (0..shards).map(|i| BufWriter::new(std::fs::File::create(format!("{}.{}", out, i)).unwrap())).collect();
    let mut events = 0u64;
    for si in 0..sessions {
        let w = &mut ws[si % shards];
        let mut c = httparse::ParserConfig::default();
        let mut saved = httparse::ParserConfig::default();
        // every history starts from the model's initial state: two default values
        writeln!(w, "{{\"ev\":\"history\"}}").unwrap();
        events += 1;
        // the first 2 * 7 * 12 sessions are systematic: one setter from default, every probe
        let steps = if si < 168 { 1 } else { rng.gen_range(1..=10) };
        for k in 0..steps {
            let what = if si < 168 { 0 } else { rng.gen_range(0..10) };
            match what {
                0..=5 => {
                    let (o, v) = if si < 168 { ((si / 12) % 7, si / 84 == 0) } else { (rng.gen_range(0..7usize), rng.gen_bool(0.6)) };
                    set_opt(&mut c, o, v);
                    writeln!(w, "{{\"ev\":\"set\",\"o\":{},\"v\":{}}}", o, v as u8).unwrap();
                    if what == 5 {
                        // chained setters: the builder returns &mut Self
                        let o2 = rng.gen_range(0..7usize);
                        let v2 = rng.gen_bool(0.5);
                        match o2 {
                            0 => { c.allow_space_before_first_header_name(v).allow_multiple_spaces_in_request_line_delimiters(v2); }
                            1 => { c.allow_space_before_first_header_name(v).allow_multiple_spaces_in_response_status_delimiters(v2); }
                            2 => { c.allow_space_before_first_header_name(v).allow_spaces_after_header_name_in_responses(v2); }
                            3 => { c.allow_space_before_first_header_name(v).allow_obsolete_multiline_headers_in_responses(v2); }
                            4 => { c.allow_multiple_spaces_in_request_line_delimiters(v).allow_space_before_first_header_name(v2); }
                            5 => { c.allow_space_before_first_header_name(v).ignore_invalid_headers_in_requests(v2); }
                            _ => { c.allow_space_before_first_header_name(v).ignore_invalid_headers_in_responses(v2); }
                        }
                        let first = if o2 == 4 { 0 } else { 4 };
                        writeln!(w, "{{\"ev\":\"set\",\"o\":{},\"v\":{}}}", first, v as u8).unwrap();
                        writeln!(w, "{{\"ev\":\"set\",\"o\":{},\"v\":{}}}", o2, v2 as u8).unwrap();
                        events += 2;
                    }
                }
                6 => { saved = c.clone(); writeln!(w, "{{\"ev\":\"clone\"}}").unwrap(); }
                7 => { std::mem::swap(&mut c, &mut saved); writeln!(w, "{{\"ev\":\"swap\"}}").unwrap(); }
                8 => { c = httparse::ParserConfig::default(); writeln!(w, "{{\"ev\":\"default\"}}").unwrap(); }
                _ => { c = c.clone(); writeln!(w, "{{\"ev\":\"set\",\"o\":0,\"v\":{}}}", c.multiple_spaces_in_request_line_delimiters_are_allowed() as u8).unwrap(); }
            }
            events += 1;
            // observe: getters, then probes
            for o in 0..7 {
                if let Some(v) = get_opt(&c, o) {
                    if si < 168 || rng.gen_bool(0.5) {
                        writeln!(w, "{{\"ev\":\"get\",\"o\":{},\"v\":{}}}", o, v as u8).unwrap();
                        events += 1;
                    }
                }
            }
            let np = if si < 168 { 1 } else { rng.gen_range(1..=3) };
            for j in 0..np {
                let pi = if si < 168 { si % 12 } else { rng.gen_range(0..PROBES.len()) };
                let _ = (j, k);
                writeln!(w, "{}", probe_json(&c, pi)).unwrap();
                events += 1;
            }
        }
    }
    println!("{{\"sessions\":{},\"events\":{}}}", sessions, events);
}
