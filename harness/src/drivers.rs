//! feed / session / race / scan trace drivers
pub fn cmd_feed(_args: &[String]) { unimplemented!() }
pub fn cmd_session(_args: &[String]) { unimplemented!() }
pub fn cmd_race(_args: &[String]) { unimplemented!() }
pub fn cmd_scan(_args: &[String]) { unimplemented!() }
