//! Compares an observation with the specification's vector, under per-property
//! projections (DESIGN.md section 4).  Each mismatch is tagged with the
//! property whose statement it contradicts.  Byte classes are not defined
//! here: they are read from a table TLC printed from Bytes.tla.

use crate::obs::*;
use crate::vecs::*;
use std::sync::OnceLock;

pub const CL_TCHAR: u8 = 1;
pub const CL_TARGET: u8 = 2;
pub const CL_VALUE: u8 = 4;
pub const CL_REASON_ASCII: u8 = 8;
pub const CL_WS: u8 = 16;
pub const CL_HEX: u8 = 32;
pub const CL_DIGIT: u8 = 64;

static CLASSES: OnceLock<[u8; 256]> = OnceLock::new();

pub fn classes() -> &'static [u8; 256] {
    CLASSES.get_or_init(|| {
        let p = std::env::var("VERIF_CLASSES").unwrap_or_else(|_| "/verif/work/cache/classes.json".into());
        let s = std::fs::read_to_string(&p).unwrap_or_else(|e| panic!("class table {}: {}", p, e));
        let l = strip_line(s.lines().find(|l| strip_line(l).is_some()).expect("no table line")).unwrap();
        let mut i = 0;
        let j = parse_j(l.as_bytes(), &mut i).expect("class table parse");
        let a = j.a();
        assert_eq!(a.len(), 256);
        let mut t = [0u8; 256];
        for (k, x) in a.iter().enumerate() {
            t[k] = x.n() as u8;
        }
        t
    })
}
#[inline]
fn cl(b: u8, m: u8) -> bool {
    classes()[b as usize] & m != 0
}

pub type Tags = Vec<(&'static str, String)>;

fn fld_prop(v: &Vector) -> &'static str {
    match v.kind {
        K_REQ => "C06",
        K_RESP => "C07",
        K_CHUNK => "C09",
        _ => "C08",
    }
}
fn hdr_prop(v: &Vector) -> &'static str {
    if v.hc_bits() == 0 {
        "C08"
    } else {
        "C14"
    }
}
fn stname(s: u8) -> &'static str {
    ["Partial", "Complete", "Err"][s as usize]
}

/// verdict, offset and error kind
pub fn judge_verdict(v: &Vector, o: &Obs, out: &mut Tags) {
    let lp = v.language_prop();
    let toomany = (v.st == ST_E && v.err == 7) || (o.st == ST_E && o.err == 7);
    if o.st != v.st {
        let msg = format!(
            "verdict {}{} but specification says {}{}",
            stname(o.st),
            if o.st == ST_E { format!("({})", ERR_NAMES[o.err as usize]) } else if o.st == ST_C { format!("({})", o.n) } else { String::new() },
            stname(v.st),
            if v.st == ST_E { format!("({})", ERR_NAMES[v.err as usize]) } else if v.st == ST_C { format!("({})", v.n) } else { String::new() },
        );
        if toomany {
            out.push(("C17", msg.clone()));
            out.push(("C10", msg.clone()));
        } else {
            out.push((lp, msg.clone()));
        }
        if v.st == ST_E && o.st == ST_P {
            out.push(("C11", msg.clone()));
        }
        if (v.st == ST_C && o.st == ST_P) || (v.st == ST_P && o.st == ST_C) {
            out.push(("C03", msg.clone()));
        }
    } else if v.st == ST_E && o.err != v.err {
        let msg = format!("Err({}) but specification says Err({})", ERR_NAMES[o.err as usize], ERR_NAMES[v.err as usize]);
        out.push(("C10", msg.clone()));
        if toomany {
            out.push(("C17", msg));
        }
    } else if v.st == ST_C && o.n != v.n {
        let msg = format!("Complete({}) but specification says Complete({})", o.n, v.n);
        out.push(("C03", msg.clone()));
        out.push((lp, msg));
    }
}

fn span_eq(s: &Option<Sl>, want: (usize, usize), buf: &[u8]) -> bool {
    match s {
        None => false,
        Some(sl) => {
            if want.0 == want.1 {
                sl.len == 0
            } else {
                sl.within(buf) == Some(want)
            }
        }
    }
}
fn show(s: &Option<Sl>, buf: &[u8]) -> String {
    match s {
        None => "None".into(),
        Some(sl) => match sl.within(buf) {
            Some((a, b)) => format!("[{},{})", a, b),
            None => format!("outside(len {})", sl.len),
        },
    }
}

/// fields of a Complete result, exact
pub fn judge_complete_fields(v: &Vector, o: &Obs, buf: &[u8], out: &mut Tags) {
    if !(v.st == ST_C && o.st == ST_C && v.n == o.n) {
        return;
    }
    let fp = fld_prop(v);
    match v.kind {
        K_REQ => {
            if !span_eq(&o.method, v.method, buf) {
                out.push((fp, format!("method {} but specification says [{},{})", show(&o.method, buf), v.method.0, v.method.1)));
            }
            if !span_eq(&o.path, v.path, buf) {
                out.push((fp, format!("path {} but specification says [{},{})", show(&o.path, buf), v.path.0, v.path.1)));
            }
            if o.version.map(|x| x as u32) != Some(v.version) {
                out.push((fp, format!("version {:?} but specification says {}", o.version, v.version)));
            }
        }
        K_RESP => {
            if o.version.map(|x| x as u32) != Some(v.version) {
                out.push((fp, format!("version {:?} but specification says {}", o.version, v.version)));
            }
            if o.code.map(|x| x as u32) != Some(v.code) {
                out.push((fp, format!("code {:?} but specification says {}", o.code, v.code)));
            }
            if !span_eq(&o.reason, v.reason, buf) {
                out.push((fp, format!("reason {} but specification says [{},{})", show(&o.reason, buf), v.reason.0, v.reason.1)));
            }
        }
        K_CHUNK => {
            let mut hex: String = v.digits.iter().map(|d| std::char::from_digit(*d as u32, 16).unwrap()).collect();
            hex = hex.trim_start_matches('0').to_string();
            if hex.is_empty() {
                hex = "0".into();
            }
            if format!("{:x}", o.size) != hex {
                out.push(("C09", format!("size {:x} but specification says {}", o.size, hex)));
            }
        }
        _ => {}
    }
    if v.kind != K_CHUNK {
        let hp = hdr_prop(v);
        if o.exposed.len() != v.hdrs.len() {
            let m = format!("{} headers but specification says {}", o.exposed.len(), v.hdrs.len());
            out.push((hp, m.clone()));
            out.push(("C17", m));
        } else {
            for (i, h) in o.exposed.iter().enumerate() {
                let w = v.hdrs[i];
                if !span_eq(&Some(h.0), (w[0], w[1]), buf) {
                    out.push((hp, format!("header {} name {} but specification says [{},{})", i, show(&Some(h.0), buf), w[0], w[1])));
                }
                if !span_eq(&Some(h.1), (w[2], w[3]), buf) {
                    out.push((hp, format!("header {} value {} but specification says [{},{})", i, show(&Some(h.1), buf), w[2], w[3])));
                }
            }
        }
    }
}

/// C04 (run-time half): judged on the observation alone
pub fn judge_zero_copy(v: &Vector, o: &Obs, buf: &[u8], out: &mut Tags) {
    let mut seq: Vec<(&str, Sl)> = Vec::new();
    if let Some(m) = o.method {
        seq.push(("method", m));
    }
    if let Some(m) = o.path {
        seq.push(("path", m));
    }
    if let Some(m) = o.reason {
        seq.push(("reason", m));
    }
    if o.st == ST_C {
        for h in &o.exposed {
            seq.push(("header name", h.0));
            seq.push(("header value", h.1));
        }
    } else {
        // headers written during a Partial / Err call
        for (i, h) in o.slots.iter().enumerate() {
            if !is_sentinel(h, i + 1) {
                seq.push(("header name", h.0));
                seq.push(("header value", h.1));
            }
        }
    }
    let mut last_end = 0usize;
    for (what, sl) in seq {
        if sl.len == 0 {
            continue;
        }
        match sl.within(buf) {
            None => out.push(("C04", format!("{} (len {}) lies outside the buffer", what, sl.len))),
            Some((a, b)) => {
                if o.st == ST_C {
                    if b > o.n {
                        out.push(("C04", format!("{} [{},{}) extends past the consumed head {}", what, a, b, o.n)));
                    }
                    if a < last_end {
                        out.push(("C04", format!("{} [{},{}) overlaps or precedes the previous field ending at {}", what, a, b, last_end)));
                    }
                    last_end = b;
                }
            }
        }
    }
    let _ = v;
}

fn all(bs: &[u8], m: u8) -> bool {
    bs.iter().all(|b| cl(*b, m))
}

/// C05: judged on the observation alone (class tables from Bytes.tla,
/// UTF-8 validity by the standard library)
pub fn judge_hygiene(v: &Vector, o: &Obs, buf: &[u8], out: &mut Tags) {
    unsafe {
        for (what, s) in [("method", o.method), ("path", o.path), ("reason", o.reason)] {
            if let Some(sl) = s {
                if sl.len > 0 && sl.within(buf).is_some() && std::str::from_utf8(sl.bytes()).is_err() {
                    out.push(("C05", format!("{} is a &str that is not valid UTF-8", what)));
                }
            }
        }
        let hs: Vec<(Sl, Sl)> = if o.st == ST_C {
            o.exposed.clone()
        } else {
            o.slots.iter().enumerate().filter(|(i, h)| !is_sentinel(h, i + 1)).map(|(_, h)| *h).collect()
        };
        for h in &hs {
            if h.0.within(buf).is_some() && std::str::from_utf8(h.0.bytes()).is_err() {
                out.push(("C05", "header name is a &str that is not valid UTF-8".into()));
            }
        }
        if o.st != ST_C {
            return;
        }
        if let Some(m) = o.method {
            if m.within(buf).is_some() && (m.len == 0 || !all(m.bytes(), CL_TCHAR)) {
                out.push(("C05", "method is not a non-empty run of tchar".into()));
            }
        }
        if let Some(m) = o.path {
            if m.within(buf).is_some() && (m.len == 0 || !all(m.bytes(), CL_TARGET)) {
                out.push(("C05", "path is not a non-empty run of target bytes".into()));
            }
        }
        if let Some(x) = o.version {
            if x > 1 {
                out.push(("C05", format!("version {}", x)));
            }
        }
        if let Some(c) = o.code {
            if c > 999 {
                out.push(("C05", format!("code {}", c)));
            }
        }
        if let Some(m) = o.reason {
            if m.len > 0 && m.within(buf).is_some() && !all(m.bytes(), CL_REASON_ASCII) {
                out.push(("C05", "reason contains a byte outside HTAB / SP / 0x21-0x7E".into()));
            }
        }
        let fold = v.hc_bits() & 2 != 0;
        for (i, h) in hs.iter().enumerate() {
            if h.0.within(buf).is_some() && (h.0.len == 0 || !all(h.0.bytes(), CL_TCHAR)) {
                out.push(("C05", format!("header {} name is not a non-empty run of tchar", i)));
            }
            if h.1.len > 0 && h.1.within(buf).is_some() {
                let b = h.1.bytes();
                if cl(b[0], CL_WS) || cl(b[b.len() - 1], CL_WS) {
                    out.push(("C05", format!("header {} value starts or ends with SP/HTAB", i)));
                }
                let mut k = 0;
                while k < b.len() {
                    let c = b[k];
                    if cl(c, CL_VALUE) {
                        k += 1;
                        continue;
                    }
                    // only with folding: CRLF or LF immediately followed by SP / HTAB
                    let mut ok = false;
                    if fold {
                        if c == b'\r' && k + 2 < b.len() && b[k + 1] == b'\n' && cl(b[k + 2], CL_WS) {
                            ok = true;
                            k += 2;
                        } else if c == b'\n' && k + 1 < b.len() && cl(b[k + 1], CL_WS) {
                            ok = true;
                            k += 1;
                        }
                    }
                    if !ok {
                        out.push(("C05", format!("header {} value contains byte 0x{:02x} at {}", i, c, k)));
                        break;
                    }
                }
            }
        }
        // consumed head: no NUL, no CR that is not immediately followed by LF
        if v.kind != K_CHUNK && o.n <= buf.len() {
            let head = &buf[..o.n];
            for (k, c) in head.iter().enumerate() {
                if *c == 0 {
                    out.push(("C05", format!("consumed head contains NUL at {}", k)));
                    break;
                }
                if *c == b'\r' && (k + 1 >= head.len() || head[k + 1] != b'\n') {
                    out.push(("C05", format!("consumed head contains a bare CR at {}", k)));
                    break;
                }
            }
        }
    }
}

/// C02 (field half): a start-line field reported next to Partial must already
/// have its final value
pub fn judge_partial_fields(v: &Vector, o: &Obs, buf: &[u8], out: &mut Tags) {
    if !(v.st == ST_P && o.st == ST_P) {
        return;
    }
    let chk = |name: &str, s: &Option<Sl>, want: (usize, usize), out: &mut Tags| {
        if let Some(sl) = s {
            if want == (0, 0) {
                out.push(("C02", format!("{} reported ({}) before it is determined", name, show(&Some(*sl), buf))));
            } else if sl.within(buf) != Some(want) {
                out.push(("C02", format!("{} reported as {} but its final value is [{},{})", name, show(&Some(*sl), buf), want.0, want.1)));
            }
        }
    };
    match v.kind {
        K_REQ => {
            chk("method", &o.method, v.method, out);
            chk("path", &o.path, v.path, out);
            if let Some(x) = o.version {
                if v.version == NOVAL || x as u32 != v.version {
                    out.push(("C02", format!("version reported as {} but specification has {}", x, v.version)));
                }
            }
        }
        K_RESP => {
            if let Some(x) = o.version {
                if v.version == NOVAL || x as u32 != v.version {
                    out.push(("C02", format!("version reported as {} but specification has {}", x, v.version)));
                }
            }
            if let Some(x) = o.code {
                if v.code == NOVAL || x as u32 != v.code {
                    out.push(("C02", format!("code reported as {} but specification has {}", x, v.code)));
                }
            }
            if let Some(sl) = o.reason {
                if !v.hasreason {
                    out.push(("C02", "reason reported before it is determined".into()));
                } else if !span_eq(&Some(sl), v.reason, buf) {
                    out.push(("C02", format!("reason reported as {} but its final value is [{},{})", show(&Some(sl), buf), v.reason.0, v.reason.1)));
                }
            }
        }
        _ => {}
    }
}


/// fields the specification had determined while the parse was still Partial, compared with
/// what the code reports once the parse has been brought to an end (they are final)
pub fn judge_determined_fields(v: &Vector, o: &Obs, buf: &[u8], out: &mut Tags) {
    // the start-line fields belong to the request-line / status-line property whatever the phase
    let lp = if v.kind == K_REQ { "C06" } else { "C07" };
    let mut chk = |name: &str, s: &Option<Sl>, want: (usize, usize)| {
        if want != (0, 0) && !span_eq(s, want, buf) {
            out.push((lp, format!("{} of the completed parse is {} but the specification had determined [{},{})", name, show(s, buf), want.0, want.1)));
        }
    };
    match v.kind {
        K_REQ => {
            chk("method", &o.method, v.method);
            chk("path", &o.path, v.path);
        }
        K_RESP => {
            if v.hasreason {
                if !span_eq(&o.reason, v.reason, buf) {
                    out.push((lp, format!("reason of the completed parse is {} but the specification had determined [{},{})", show(&o.reason, buf), v.reason.0, v.reason.1)));
                }
            }
        }
        _ => {}
    }
    if (v.kind == K_REQ || v.kind == K_RESP) && v.version != NOVAL {
        if o.version.map(|x| x as u32) != Some(v.version) {
            out.push((lp, format!("version of the completed parse is {:?} but the specification had determined {}", o.version, v.version)));
        }
    }
    if v.kind == K_RESP && v.code != NOVAL {
        if o.code.map(|x| x as u32) != Some(v.code) {
            out.push((lp, format!("code of the completed parse is {:?} but the specification had determined {}", o.code, v.code)));
        }
    }
}

/// C17: header array after the call, judged against the statement (lenient:
/// "previous content or a header from this buffer")
pub fn judge_storage(v: &Vector, o: &Obs, buf: &[u8], entry: u8, out: &mut Tags, drift: &mut Vec<String>) {
    if v.kind == K_CHUNK {
        return;
    }
    if !o.canary_ok {
        out.push(("C17", "a slot outside the caller's header array was written".into()));
        out.push(("C01", "a slot outside the caller's header array was written".into()));
    }
    let from_buf = |h: &(Sl, Sl)| -> bool {
        h.0.len > 0 && h.0.within(buf).is_some() && (h.1.len == 0 || h.1.within(buf).is_some())
    };
    if o.st == ST_C {
        for (i, h) in o.exposed.iter().enumerate() {
            if is_any_sentinel(h) || !from_buf(h) {
                out.push(("C17", format!("exposed header {} was not parsed from this buffer", i)));
            }
            if i < o.slots.len() && o.slots[i] != *h {
                out.push(("C17", format!("exposed header {} is not slot {} of the caller's array", i, i)));
            }
        }
        for i in o.exposed.len()..o.slots.len() {
            if !is_sentinel(&o.slots[i], i + 1) {
                out.push(("C17", format!("slot {} beyond the {} accepted headers lost its previous content", i, o.exposed.len())));
            }
        }
    } else {
        if !o.exposed_is_whole {
            if is_uninit_entry(entry) {
                out.push(("C17", format!("uninit entry point changed `headers` (len {}) on a non-Complete result", o.exposed.len())));
            } else {
                out.push(("C17", format!("`headers` no longer refers to the caller's whole array after a non-Complete result (len {})", o.exposed.len())));
            }
        }
        for (i, h) in o.slots.iter().enumerate() {
            if is_sentinel(h, i + 1) {
                continue;
            }
            if !from_buf(h) {
                out.push(("C17", format!("slot {} holds neither its previous content nor a header from this buffer", i)));
            } else if o.st == v.st {
                // implementation-shape expectation only
                let ok = i < v.hdrs.len() && h.0.within(buf) == Some((v.hdrs[i][0], v.hdrs[i][1]));
                if !ok {
                    drift.push(format!("slot {} written with a header the specification had not completed at index {}", i, i));
                }
            }
        }
    }
}

/// everything that is judged on one fresh-value observation
pub fn judge_all(v: &Vector, o: &Obs, buf: &[u8], entry: u8, out: &mut Tags, drift: &mut Vec<String>) {
    if o.panicked {
        out.push(("C01", "the call panicked".into()));
        return;
    }
    if o.allocs > 0 {
        out.push(("C19", format!("{} heap allocation(s) during the call", o.allocs)));
    }
    judge_verdict(v, o, out);
    judge_complete_fields(v, o, buf, out);
    judge_zero_copy(v, o, buf, out);
    judge_hygiene(v, o, buf, out);
    judge_partial_fields(v, o, buf, out);
    judge_storage(v, o, buf, entry, out, drift);
}

/// equality of two observations of the same input (C13, C15, C16): status,
/// offset, error kind, fields and headers as buffer-relative spans
pub fn same_result(a: &Obs, abuf: &[u8], b: &Obs, bbuf: &[u8]) -> Option<String> {
    if a.panicked || b.panicked {
        return if a.panicked == b.panicked { None } else { Some("one call panicked".into()) };
    }
    if (a.st, a.n, a.err) != (b.st, b.n, b.err) {
        return Some(format!(
            "{}({},{}) vs {}({},{})",
            stname(a.st), a.n, ERR_NAMES[a.err as usize], stname(b.st), b.n, ERR_NAMES[b.err as usize]
        ));
    }
    let rel = |s: &Option<Sl>, buf: &[u8]| -> Option<(i64, usize)> {
        s.map(|sl| match sl.within(buf) {
            Some((x, _)) if sl.len > 0 => (x as i64, sl.len),
            _ => (-1, sl.len),
        })
    };
    if a.st == ST_C {
        if rel(&a.method, abuf) != rel(&b.method, bbuf) {
            return Some("method differs".into());
        }
        if rel(&a.path, abuf) != rel(&b.path, bbuf) {
            return Some("path differs".into());
        }
        if rel(&a.reason, abuf) != rel(&b.reason, bbuf) {
            return Some("reason differs".into());
        }
        if a.version != b.version {
            return Some("version differs".into());
        }
        if a.code != b.code {
            return Some("code differs".into());
        }
        if a.size != b.size {
            return Some("chunk size differs".into());
        }
        if a.exposed.len() != b.exposed.len() {
            return Some(format!("{} vs {} headers", a.exposed.len(), b.exposed.len()));
        }
        for i in 0..a.exposed.len() {
            if rel(&Some(a.exposed[i].0), abuf) != rel(&Some(b.exposed[i].0), bbuf)
                || rel(&Some(a.exposed[i].1), abuf) != rel(&Some(b.exposed[i].1), bbuf)
            {
                return Some(format!("header {} differs", i));
            }
        }
    }
    None
}
