//! Vectors printed by TLC (`PrintT(ToJson(VecOf(..)))`): nested arrays of
//! non-negative integers.  Parsed by hand (no allocation per number).

pub const INF: u32 = 100000;
pub const NOVAL: u32 = 65535;

pub const K_REQ: u8 = 0;
pub const K_RESP: u8 = 1;
pub const K_HDRS: u8 = 2;
pub const K_CHUNK: u8 = 3;

pub const ST_P: u8 = 0;
pub const ST_C: u8 = 1;
pub const ST_E: u8 = 2;

pub const ERR_NAMES: [&str; 9] = [
    "", "Token", "Version", "NewLine", "Status", "HeaderName", "HeaderValue",
    "TooManyHeaders", "InvalidChunkSize",
];

pub const PHASES: [&str; 33] = [
    "?", "LEAD", "LEAD_CR", "METHOD", "T0", "TARGET", "VER", "REQ_EOL", "REQ_EOL_CR", "RSP1",
    "C0", "AFTER_CODE", "AC_CR", "RSKIP", "REASON", "REASON_CR", "HLINE", "HEND_CR", "NAME",
    "NAME_WS", "OWS", "OWS_CR", "FOLD_E", "VALUE", "VAL_CR", "FOLD_V", "IGN", "IGN_CR",
    "SIZE", "LWS", "EXT", "CCR", "DONE",
];

#[derive(Debug, Clone, PartialEq)]
pub enum J {
    N(u64),
    A(Vec<J>),
}

impl J {
    pub fn n(&self) -> u64 {
        match self {
            J::N(x) => *x,
            _ => panic!("expected number"),
        }
    }
    pub fn a(&self) -> &[J] {
        match self {
            J::A(v) => v,
            _ => panic!("expected array"),
        }
    }
    pub fn bytes(&self) -> Vec<u8> {
        self.a().iter().map(|x| x.n() as u8).collect()
    }
    pub fn span(&self) -> (usize, usize) {
        let a = self.a();
        (a[0].n() as usize, a[1].n() as usize)
    }
}

pub fn parse_j(s: &[u8], i: &mut usize) -> Result<J, String> {
    while *i < s.len() && (s[*i] == b' ' || s[*i] == b',') {
        *i += 1;
    }
    if *i >= s.len() {
        return Err("eof".into());
    }
    if s[*i] == b'[' {
        *i += 1;
        let mut v = Vec::new();
        loop {
            while *i < s.len() && (s[*i] == b' ' || s[*i] == b',') {
                *i += 1;
            }
            if *i >= s.len() {
                return Err("eof in array".into());
            }
            if s[*i] == b']' {
                *i += 1;
                return Ok(J::A(v));
            }
            v.push(parse_j(s, i)?);
        }
    }
    if s[*i].is_ascii_digit() {
        let mut x: u64 = 0;
        while *i < s.len() && s[*i].is_ascii_digit() {
            x = x * 10 + (s[*i] - b'0') as u64;
            *i += 1;
        }
        return Ok(J::N(x));
    }
    Err(format!("unexpected byte {} at {}", s[*i], *i))
}

/// Strip the quotes TLC's PrintT puts around a string value.
pub fn strip_line(line: &str) -> Option<&str> {
    let l = line.trim();
    let l = l.strip_prefix('"').unwrap_or(l);
    let l = l.strip_suffix('"').unwrap_or(l);
    if l.starts_with('[') {
        Some(l)
    } else {
        None
    }
}

#[derive(Debug, Clone)]
pub struct Vector {
    pub kind: u8,
    pub cfg: u8,
    pub cap: u32,
    pub buf: Vec<u8>,
    pub st: u8,
    pub n: usize,
    pub err: u8,
    pub method: (usize, usize),
    pub path: (usize, usize),
    pub version: u32,
    pub code: u32,
    pub hasreason: bool,
    pub reason: (usize, usize),
    pub hdrs: Vec<[usize; 4]>,
    pub digits: Vec<u8>,
    pub ph: u8,
    pub deferred: bool,
    pub completion: Vec<u8>,
    pub lead: usize,
    pub hstart: usize,
}

impl Vector {
    pub fn parse(line: &str) -> Result<Vector, String> {
        let l = strip_line(line).ok_or("not a vector line")?;
        let mut i = 0;
        let j = parse_j(l.as_bytes(), &mut i)?;
        let a = j.a();
        if a.len() < 20 {
            return Err(format!("vector has {} fields", a.len()));
        }
        Ok(Vector {
            kind: a[0].n() as u8,
            cfg: a[1].n() as u8,
            cap: a[2].n() as u32,
            buf: a[3].bytes(),
            st: a[4].n() as u8,
            n: a[5].n() as usize,
            err: a[6].n() as u8,
            method: a[7].span(),
            path: a[8].span(),
            version: a[9].n() as u32,
            code: a[10].n() as u32,
            hasreason: a[11].n() != 0,
            reason: a[12].span(),
            hdrs: a[13]
                .a()
                .iter()
                .map(|h| {
                    let h = h.a();
                    [h[0].n() as usize, h[1].n() as usize, h[2].n() as usize, h[3].n() as usize]
                })
                .collect(),
            digits: a[14].bytes(),
            ph: a[15].n() as u8,
            deferred: a[16].n() != 0,
            completion: a[17].bytes(),
            lead: a[18].n() as usize,
            hstart: a[19].n() as usize,
        })
    }

    pub fn to_line(&self) -> String {
        let sp = |s: (usize, usize)| format!("[{},{}]", s.0, s.1);
        let by = |b: &[u8]| {
            format!("[{}]", b.iter().map(|x| x.to_string()).collect::<Vec<_>>().join(","))
        };
        format!(
            "[{},{},{},{},{},{},{},{},{},{},{},{},{},[{}],{},{},{},{},{},{}]",
            self.kind,
            self.cfg,
            self.cap,
            by(&self.buf),
            self.st,
            self.n,
            self.err,
            sp(self.method),
            sp(self.path),
            self.version,
            self.code,
            self.hasreason as u8,
            sp(self.reason),
            self.hdrs
                .iter()
                .map(|h| format!("[{},{},{},{}]", h[0], h[1], h[2], h[3]))
                .collect::<Vec<_>>()
                .join(","),
            by(&self.digits),
            self.ph,
            self.deferred as u8,
            by(&self.completion),
            self.lead,
            self.hstart
        )
    }

    /// the option bits this vector's kind reads
    pub fn relevant_mask(&self) -> u8 {
        relevant_mask(self.kind)
    }

    /// effective header options [A,F,S,I] as bits 0..3
    pub fn hc_bits(&self) -> u8 {
        let c = self.cfg;
        match self.kind {
            K_REQ => ((c >> 4) & 1) << 2 | ((c >> 5) & 1) << 3,
            K_RESP => ((c >> 2) & 1) | ((c >> 3) & 1) << 1 | ((c >> 4) & 1) << 2 | ((c >> 6) & 1) << 3,
            _ => 0,
        }
    }

    pub fn m_bit(&self) -> bool {
        match self.kind {
            K_REQ => self.cfg & 1 != 0,
            K_RESP => self.cfg & 2 != 0,
            _ => false,
        }
    }

    /// The property that pins the accepted language / reported fields of the
    /// grammar region the specification was in when it reached its verdict.
    pub fn language_prop(&self) -> &'static str {
        match self.kind {
            K_CHUNK => "C09",
            K_HDRS => "C08",
            K_REQ | K_RESP => {
                if self.hstart == 0 {
                    if self.kind == K_REQ {
                        "C06"
                    } else {
                        "C07"
                    }
                } else if self.hc_bits() == 0 {
                    "C08"
                } else {
                    "C14"
                }
            }
            _ => "C06",
        }
    }
}

/// cfg bits: Mq=1 Mr=2 A=4 F=8 S=16 Iq=32 Ir=64
pub fn relevant_mask(kind: u8) -> u8 {
    match kind {
        K_REQ => 1 | 16 | 32,
        K_RESP => 2 | 4 | 8 | 16 | 64,
        _ => 0,
    }
}

pub fn make_config(bits: u8) -> httparse::ParserConfig {
    let mut c = httparse::ParserConfig::default();
    c.allow_multiple_spaces_in_request_line_delimiters(bits & 1 != 0);
    c.allow_multiple_spaces_in_response_status_delimiters(bits & 2 != 0);
    c.allow_spaces_after_header_name_in_responses(bits & 4 != 0);
    c.allow_obsolete_multiline_headers_in_responses(bits & 8 != 0);
    c.allow_space_before_first_header_name(bits & 16 != 0);
    c.ignore_invalid_headers_in_requests(bits & 32 != 0);
    c.ignore_invalid_headers_in_responses(bits & 64 != 0);
    c
}
