pub mod drivers;
pub mod judge;
pub mod obs;
pub mod replay;
pub mod vecs;

#[global_allocator]
static GLOBAL: obs::Counting = obs::Counting;
pub mod giant;
pub mod alias;
