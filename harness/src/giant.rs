//! A sparse mapping of more than 4 GiB: a head placed at its start, followed by zero pages that
//! are never touched (no physical memory behind them).  The slice handed to the parser has a
//! length above 2^32, so any length or remaining-length computation that is carried out in a
//! narrower integer (an `as i32` for an intrinsic's length operand, a `u32` offset) wraps, and any
//! path that is taken only when "a lot" of input remains is taken.
//!
//! What the specification says about such a buffer follows from `PropAbsorbing` (Head/Props,
//! C02): a final verdict is not changed by any continuation.  So for a vector whose verdict is
//! Complete or Err the expected result on `head ++ 0^k` is the vector's own result.

pub struct Giant {
    base: *mut u8,
    pub cap: usize,
    dirty: usize,
}
unsafe impl Send for Giant {}

pub const FOUR_G: usize = 1 << 32;

impl Giant {
    pub fn new() -> Option<Giant> {
        let cap = FOUR_G + (1 << 21);
        unsafe {
            let p = libc::mmap(
                std::ptr::null_mut(),
                cap,
                libc::PROT_READ | libc::PROT_WRITE,
                libc::MAP_PRIVATE | libc::MAP_ANONYMOUS | libc::MAP_NORESERVE,
                -1,
                0,
            );
            if p == libc::MAP_FAILED {
                return None;
            }
            Some(Giant { base: p as *mut u8, cap, dirty: 0 })
        }
    }

    /// `head` followed by zeros, `total` bytes in all (total <= cap)
    pub fn place<'a>(&'a mut self, head: &[u8], total: usize) -> &'a [u8] {
        assert!(head.len() <= total && total <= self.cap && head.len() < (1 << 20));
        unsafe {
            if self.dirty > head.len() {
                std::ptr::write_bytes(self.base.add(head.len()), 0, self.dirty - head.len());
            }
            std::ptr::copy_nonoverlapping(head.as_ptr(), self.base, head.len());
            self.dirty = head.len();
            std::slice::from_raw_parts(self.base, total)
        }
    }
}

impl Drop for Giant {
    fn drop(&mut self) {
        unsafe {
            libc::munmap(self.base as *mut _, self.cap);
        }
    }
}
