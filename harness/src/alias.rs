//! A buffer `prefix . fill^k . suffix` with k above 2^32 that costs a few MiB of memory: the run
//! of fill bytes is the SAME 2 MiB of physical memory mapped over and over (a memfd mapped
//! MAP_SHARED at consecutive addresses); only the first and last pages are private.  The code
//! under test sees an ordinary `&[u8]` of more than 4 GiB whose every byte is what it should be.
//!
//! What the specification says about such an input follows from the pumping lemma checked in
//! spec/Pump.tla: the result equals that of the small twin `prefix . fill^1000 . suffix`
//! (validated by TLC byte for byte) with every offset at or behind the run shifted.

pub const PAGE: usize = 4096;
const CHUNK: usize = 2 << 20;

pub struct Aliased {
    region: *mut u8,
    region_len: usize,
    data: *const u8,
    pub len: usize,
    fd: i32,
}
unsafe impl Send for Aliased {}

impl Aliased {
    pub fn new(prefix: &[u8], fill: u8, k: usize, suffix: &[u8]) -> Option<Aliased> {
        unsafe {
            let fd = libc::syscall(libc::SYS_memfd_create, b"hv-alias\0".as_ptr(), 0u32) as i32;
            if fd < 0 {
                return None;
            }
            if libc::ftruncate(fd, CHUNK as libc::off_t) != 0 {
                libc::close(fd);
                return None;
            }
            // fill the chunk once
            let w = libc::mmap(std::ptr::null_mut(), CHUNK, libc::PROT_READ | libc::PROT_WRITE, libc::MAP_SHARED, fd, 0);
            if w == libc::MAP_FAILED {
                libc::close(fd);
                return None;
            }
            std::ptr::write_bytes(w as *mut u8, fill, CHUNK);
            libc::munmap(w, CHUNK);

            // layout: [head pages: pad . prefix][nfull aliased chunks][tail pages: fill^(k % CHUNK) . suffix]
            let off = (PAGE - prefix.len() % PAGE) % PAGE;
            let head_len = off + prefix.len();
            let nfull = k / CHUNK;
            let rest = k % CHUNK;
            let tail_len = ((rest + suffix.len() + PAGE - 1) / PAGE * PAGE).max(PAGE);
            let region_len = head_len.max(PAGE) + nfull * CHUNK + tail_len + PAGE;
            let head_pages = head_len.max(PAGE);
            let region = libc::mmap(std::ptr::null_mut(), region_len, libc::PROT_NONE,
                libc::MAP_PRIVATE | libc::MAP_ANONYMOUS | libc::MAP_NORESERVE, -1, 0);
            if region == libc::MAP_FAILED {
                libc::close(fd);
                return None;
            }
            let region = region as *mut u8;
            let fixed = |addr: *mut u8, len: usize, shared: bool| -> bool {
                let p = if shared {
                    libc::mmap(addr as *mut _, len, libc::PROT_READ, libc::MAP_SHARED | libc::MAP_FIXED, fd, 0)
                } else {
                    libc::mmap(addr as *mut _, len, libc::PROT_READ | libc::PROT_WRITE, libc::MAP_PRIVATE | libc::MAP_ANONYMOUS | libc::MAP_FIXED, -1, 0)
                };
                p != libc::MAP_FAILED
            };
            let mut ok = fixed(region, head_pages, false);
            let run0 = region.add(head_pages);
            for i in 0..nfull {
                ok = ok && fixed(run0.add(i * CHUNK), CHUNK, true);
            }
            let tail = run0.add(nfull * CHUNK);
            ok = ok && fixed(tail, tail_len, false);
            if !ok {
                libc::munmap(region as *mut _, region_len);
                libc::close(fd);
                return None;
            }
            // head: the buffer starts `head_pages - prefix.len()` bytes into the head pages
            let start = region.add(head_pages - prefix.len());
            std::ptr::copy_nonoverlapping(prefix.as_ptr(), start, prefix.len());
            std::ptr::write_bytes(tail, fill, rest);
            std::ptr::copy_nonoverlapping(suffix.as_ptr(), tail.add(rest), suffix.len());
            // (the page after the tail stays PROT_NONE: a guard page)
            let _ = off;
            Some(Aliased { region, region_len, data: start, len: prefix.len() + k + suffix.len(), fd })
        }
    }

    pub fn bytes(&self) -> &[u8] {
        unsafe { std::slice::from_raw_parts(self.data, self.len) }
    }
}

impl Drop for Aliased {
    fn drop(&mut self) {
        unsafe {
            libc::munmap(self.region as *mut _, self.region_len);
            libc::close(self.fd);
        }
    }
}
