SPECIFICATION Spec
