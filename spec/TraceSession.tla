----------------------------- MODULE TraceSession -----------------------------
(***************************************************************************)
(* C18 / C17, implementation -> specification: histories of real calls on  *)
(* one re-used Request/Response value and header array, validated against  *)
(* Session.tla.  For every recorded call TLC computes the automaton run    *)
(* from nothing but (buffer, configuration, current `headers` length) -    *)
(* that IS history independence - and compares status, the fields and      *)
(* headers of a Complete result, and the `headers` length afterwards.      *)
(* Events: {"ev":"session",kind,cap};                                      *)
(*   {"ev":"scall",uninit,ucap,cfg,buf,st,n,err,m,p,v,c,r,h,exp,whole}     *)
(***************************************************************************)
EXTENDS Session, Json, IOUtils, TLC

Rec == ndJsonDeserialize(IOEnv.TRACE)
VARIABLES l, val
KindName(i) == CASE i = 0 -> "req" [] i = 1 -> "resp"
StOf(x) == CASE x = 0 -> "P" [] x = 1 -> "C" [] x = 2 -> "E"
SpanIs(sp, want) == IF want[1] = want[2] THEN sp[1] = sp[2] /\ sp[1] >= 0 ELSE sp = want

TInit == l = 1 /\ val = NewValue("req", 0)
TSession == /\ l <= Len(Rec) /\ Rec[l].ev = "session" /\ l' = l + 1
            /\ val' = NewValue(KindName(Rec[l].kind), Rec[l].cap)
CallOk(e) ==
  LET cap == IF e.uninit = 1 THEN e.ucap ELSE val.exposed
      r == Result(val, CfgOfBits(e.cfg), cap, e.buf)
      v2 == After(val, r, e.uninit = 1, l)
  IN /\ ~e.panicked
     /\ StOf(e.st) = r.st
     /\ r.st = "C" => e.n = r.n
     /\ r.st = "E" => e.err = ErrId(r.err)
     /\ r.st = "C" =>
          /\ val.kind = "req" => SpanIs(e.m, r.method) /\ SpanIs(e.p, r.path) /\ e.v = r.version
          /\ val.kind = "resp" => e.v = r.version /\ e.c = r.code /\ SpanIs(e.r, r.reason)
          /\ Len(e.h) = Len(r.hdrs)
          /\ \A i \in 1..Len(r.hdrs) : /\ <<e.h[i][1], e.h[i][2]>> = r.hdrs[i][1]
                                       /\ SpanIs(<<e.h[i][3], e.h[i][4]>>, r.hdrs[i][2])
     /\ e.exp = v2.exposed                       \* `headers` length the caller sees afterwards
     /\ r.st # "C" => e.whole = 1                \* whole array put back / `headers` untouched
TCall == /\ l <= Len(Rec) /\ Rec[l].ev = "scall" /\ l' = l + 1
         /\ CallOk(Rec[l])
         /\ val' = After(val, Result(val, CfgOfBits(Rec[l].cfg),
                                     IF Rec[l].uninit = 1 THEN Rec[l].ucap ELSE val.exposed, Rec[l].buf),
                         Rec[l].uninit = 1, l)
TSpec == TInit /\ [][TSession \/ TCall]_<<l, val>>
Accepted ==
  IF TLCGet("stats").diameter - 1 = Len(Rec) THEN TRUE
  ELSE PrintT(<<"REJECT", TLCGet("stats").diameter, Len(Rec)>>) /\ FALSE
=============================================================================
