----------------------------- MODULE TraceConfig -----------------------------
(***************************************************************************)
(* Implementation -> specification for the ParserConfig builder: recorded  *)
(* histories of default() / setters / clone() / mem::swap on real values,  *)
(* interleaved with observations - the four getters, and probe messages    *)
(* parsed with the value as it stands.  TLC follows the history in         *)
(* Config.tla's machine and computes every probe's result with Head from   *)
(* the option set the MODEL holds: a setter that touches another option,   *)
(* does not clear, or a clone that shares state makes a probe disagree.    *)
(*  {"ev":"history"} (two fresh defaults)                                  *)
(*  {"ev":"default"} {"ev":"set","o":k,"v":0|1} {"ev":"clone"} {"ev":"swap"} *)
(*  {"ev":"get","o":k,"v":0|1}                                             *)
(*  {"ev":"probe","kind":0|1,"b":[..],"st":..,"n":..,"err":..,"hc":..}     *)
(***************************************************************************)
EXTENDS Head, Json, IOUtils
Rec == ndJsonDeserialize(IOEnv.TRACE)
VARIABLES l, bits, saved
C == INSTANCE Config
KindName(i) == CASE i = 0 -> "req" [] i = 1 -> "resp"
Ev(e) == l <= Len(Rec) /\ Rec[l].ev = e /\ l' = l + 1

TInit == l = 1 /\ bits = 0 /\ saved = 0
THistory == Ev("history") /\ bits' = 0 /\ saved' = 0      \* two fresh default values
TDefault == Ev("default") /\ C!Default
TSet == Ev("set") /\ C!Set(Rec[l].o, Rec[l].v = 1)
TClone == Ev("clone") /\ C!Clone
TSwap == Ev("swap") /\ C!Swap
TGet == Ev("get") /\ Rec[l].v = C!BitOf(bits, Rec[l].o) /\ UNCHANGED <<bits, saved>>
ProbeOk(e) ==
  LET s == Run(KindName(e.kind), CfgOfBits(bits), 100000, e.b) IN
    /\ e.st = StId(s.st)
    /\ s.st = "C" => e.n = s.n /\ e.hc = Len(s.hdrs)
    /\ s.st = "E" => e.err = ErrId(s.err)
TProbe == Ev("probe") /\ ProbeOk(Rec[l]) /\ UNCHANGED <<bits, saved>>
TSpec == TInit /\ [][THistory \/ TDefault \/ TSet \/ TClone \/ TSwap \/ TGet \/ TProbe]_<<l, bits, saved>>
Accepted ==
  IF TLCGet("stats").diameter - 1 = Len(Rec) THEN TRUE
  ELSE PrintT(<<"REJECT", TLCGet("stats").diameter, Len(Rec)>>) /\ FALSE
=============================================================================
