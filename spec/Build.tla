-------------------------------- MODULE Build --------------------------------
(***************************************************************************)
(* The build-time switch lattice (property C13, second sentence).          *)
(* `Flags` is build.rs as a function from its inputs to the cfg flags it   *)
(* emits; the `cfg(all/any/not ...)` guards of src/simd/mod.rs are boolean *)
(* operators over those flags and the target architecture.  Invariant: for *)
(* every combination of switches exactly one module provides the three     *)
(* scanner entry points, and every module a provider refers to is          *)
(* compiled.                                                               *)
(***************************************************************************)
EXTENDS Naturals, FiniteSets, TLC, Json

Archs == {"x86_64", "x86", "aarch64", "other"}
Inputs == [std : BOOLEAN, miri : BOOLEAN, dsimd : BOOLEAN, dct : BOOLEAN,
           sse42 : BOOLEAN, avx2 : BOOLEAN, arch : Archs, rust159 : BOOLEAN]

\* build.rs: enable_simd
Flags(i) ==
  IF ~i.std \/ i.miri \/ i.dsimd THEN {}
  ELSE (IF i.rust159 THEN {"neon_intrinsics"} ELSE {}) \cup {"simd"}
       \cup (IF i.dct THEN {}
             ELSE (IF i.sse42 THEN {"tf_sse42"} ELSE {}) \cup (IF i.avx2 THEN {"tf_avx2"} ELSE {}))

X86(i) == i.arch \in {"x86_64", "x86"}
Has(i, f) == f \in Flags(i)

\* src/simd/mod.rs: which modules are compiled
ModSwar(i) == TRUE
ModSse42(i) == Has(i, "simd") /\ ~Has(i, "tf_avx2") /\ X86(i)
ModAvx2(i) == Has(i, "simd") /\ (Has(i, "tf_avx2") \/ ~Has(i, "tf_sse42")) /\ X86(i)
ModRuntime(i) == Has(i, "simd") /\ ~(Has(i, "tf_sse42") \/ Has(i, "tf_avx2")) /\ X86(i)
ModSse42CT(i) == Has(i, "simd") /\ Has(i, "tf_sse42") /\ ~Has(i, "tf_avx2") /\ X86(i)
ModAvx2CT(i) == Has(i, "simd") /\ Has(i, "tf_avx2") /\ X86(i)
ModNeon(i) == Has(i, "simd") /\ i.arch = "aarch64" /\ Has(i, "neon_intrinsics")

\* src/simd/mod.rs: which `pub use self::X::*` are active
UseSwar(i) == ~(Has(i, "simd") /\ (X86(i) \/ (i.arch = "aarch64" /\ Has(i, "neon_intrinsics"))))
Providers(i) ==
  (IF UseSwar(i) THEN {"swar"} ELSE {}) \cup (IF ModRuntime(i) THEN {"runtime"} ELSE {})
  \cup (IF ModSse42CT(i) THEN {"sse42"} ELSE {}) \cup (IF ModAvx2CT(i) THEN {"avx2"} ELSE {})
  \cup (IF ModNeon(i) THEN {"neon"} ELSE {})

\* modules each provider's code refers to
RefsOk(i) ==
  /\ ModRuntime(i) => ModSse42(i) /\ ModAvx2(i) /\ i.std      \* is_x86_feature_detected! needs std
  /\ ModSse42CT(i) => ModSse42(i)
  /\ ModAvx2CT(i) => ModAvx2(i)
  /\ ModSse42(i) \/ ModAvx2(i) \/ ModNeon(i) => ModSwar(i)     \* tails fall back to SWAR

ExactlyOneProvider == \A i \in Inputs : Cardinality(Providers(i)) = 1 /\ RefsOk(i)
\* without std the crate must not need anything but core: no SIMD module at all
NoStdIsScalar == \A i \in Inputs : ~i.std => Providers(i) = {"swar"} /\ ~ModSse42(i) /\ ~ModAvx2(i) /\ ~ModNeon(i)

TheProvider(i) == CHOOSE p \in Providers(i) : TRUE
Bit(x) == IF x THEN 1 ELSE 0
\* predictions for the build matrix this sandbox can execute (x86_64, current rustc, no miri)
Predictions ==
  { <<Bit(i.std), Bit(i.dsimd), Bit(i.dct), Bit(i.sse42), Bit(i.avx2), TheProvider(i)>> :
      i \in {j \in Inputs : j.arch = "x86_64" /\ j.rust159 /\ ~j.miri /\ (j.avx2 => j.sse42)} }
ASSUME ExactlyOneProvider
ASSUME NoStdIsScalar
ASSUME PrintT(<<"PREDICTIONS", ToJson(Predictions)>>)
VARIABLE x
Spec == x = 0 /\ [][x' = x]_x
=============================================================================
