------------------------------ MODULE MCParser ------------------------------
EXTENDS Parser

NormV(v) == IF v[1] = v[2] THEN NoSpan ELSE v
NormHdrs(hs) == [i \in 1..Len(hs) |-> <<hs[i][1], NormV(hs[i][2])>>]
\* the algorithm's result equals the automaton's on the same bytes
Refines ==
  pc = "Done" =>
    LET h == Run(PKind, PCfg, PCap, buf) IN
      /\ res \in {"P", "C", "E"} /\ res = h.st
      /\ res = "E" => err = h.err
      /\ res = "C" => n = h.n
      /\ PKind = "req" => method = h.method /\ path = h.path /\ version = h.version
      /\ PKind = "resp" => /\ version = h.version /\ code = h.code /\ hasreason = h.hasreason
                           /\ NormV(reason) = NormV(h.reason)
      /\ PKind \in {"req", "resp", "hdrs"} => NormHdrs(hdrs) = NormHdrs(h.hdrs)
      /\ PKind = "chunk" /\ res = "C" => digits = h.digits
\* the cursor contract (Cursor.tla's Bounds) and strictly-forward, linear work
CursorInv == 0 <= start /\ start <= cursor /\ cursor <= Len(buf) /\ travel <= Len(buf)
Terminates == <>(pc = "Done")
=============================================================================
