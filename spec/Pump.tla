-------------------------------- MODULE Pump --------------------------------
(***************************************************************************)
(* The pumping lemma of the reference automaton, checked on every abstract *)
(* state: inside a field, a byte that keeps the phase changes nothing but  *)
(* the position (and, in a header value, the end of the visible text,      *)
(* which is the position).  `Step` never looks at an offset - it only      *)
(* copies the current one into fields - so k such bytes are one jump:      *)
(*        Run(s, a^k) = Shifted(s, k)            (checked here for k <= 6) *)
(* Consequence used by the harness for inputs no model checker can hold    *)
(* (header values of more than 4 GiB; TLC's integers end at 2^31): two     *)
(* inputs x . a^k . y and x . a^K . y have the same result up to a shift   *)
(* of K - k of every offset at or behind the pumped run.  The small twin   *)
(* (k = 1000) is validated by TLC byte for byte (TraceCall); the harness   *)
(* compares the big twin (K = 2^32 + 5) with it in 64-bit arithmetic and   *)
(* the trace carries the outcome (`twin = 1`).                             *)
(***************************************************************************)
EXTENDS Skel
PumpAlpha == {97, 48, 32, 9, 195, 128}
\* s with its position moved by k; lv (end of the visible value text) follows when the byte is visible
Shifted(x, k, vis) == [x EXCEPT !.pos = x.pos + k, !.lv = IF vis THEN x.pos + k ELSE @]
Rep(a, k) == [i \in 1..k |-> a]
PumpsAt(x, a, vis) == Step(x, a) = Shifted(x, 1, vis)
PumpLemma ==
  \A a \in PumpAlpha : \A vis \in BOOLEAN :
    PumpsAt(s, a, vis) /\ PumpsAt(Step(s, a), a, vis) =>
      \A k \in 2..6 : RunFrom(s, Rep(a, k), 1) = Shifted(s, k, vis)
\* the lemma is not vacuous: the phases a long field can be in all have a pumpable byte
PumpablePhases == {"TARGET", "VALUE", "REASON", "NAME", "IGN", "EXT", "METHOD"}
PumpNonVacuous ==
  s.ph \in PumpablePhases /\ s.st = "P" /\ s.q = 0 =>
    \E a \in PumpAlpha, vis \in BOOLEAN : PumpsAt(s, a, vis) /\ PumpsAt(Step(s, a), a, vis)
=============================================================================
