------------------------------ MODULE TraceScan ------------------------------
(***************************************************************************)
(* C12, implementation -> specification: results of the real scanners      *)
(* (hook H2: every compiled-in backend, called directly) validated against *)
(* the declarative ScanStop of Scan.tla.  One event aggregates the 256     *)
(* results obtained by putting each byte value b at position p of a buffer *)
(* of length n otherwise filled with `fill` (and optionally a second       *)
(* offender q/qb), at one start alignment:                                 *)
(*   {"ev":"scan", backend, cls, n, p, fill, q, qb, align, runs}            *)
(* `runs` is the run-length encoding [[stop, count], ...] of the 256 stop  *)
(* offsets for b = 0..255.  ScanStop depends on a byte only through its    *)
(* class membership, so the expected stop is computed once with a byte     *)
(* inside and once with a byte outside the class and selected per b.       *)
(***************************************************************************)
EXTENDS Scan, Json, IOUtils

Rec == ndJsonDeserialize(IOEnv.TRACE)
VARIABLE l
ClsName(i) == CASE i = 0 -> "uri" [] i = 1 -> "val" [] i = 2 -> "name"
SeqOf(r, b) == [i \in 1..r.n |-> IF i = r.p THEN b ELSE IF i = r.q THEN r.qb ELSE r.fill]
InRep == 97       \* a byte inside every class
OutRep == 0       \* a byte outside every class
RECURSIVE RunsOk(_, _, _, _, _)
RunsOk(runs, i, b0, c, exp) ==      \* exp = <<expected if b in class, expected if not>>
  IF i > Len(runs) THEN b0 = 256
  ELSE /\ \A b \in b0..(b0 + runs[i][2] - 1) :
            b <= 255 /\ runs[i][1] = (IF InClass(c, b) THEN exp[1] ELSE exp[2])
       /\ RunsOk(runs, i + 1, b0 + runs[i][2], c, exp)
ScanOk(r) ==
  LET c == ClsName(r.cls)
      exp == IF r.p = 0 THEN <<ScanStop(c, SeqOf(r, 0)), ScanStop(c, SeqOf(r, 0))>>
             ELSE <<ScanStop(c, SeqOf(r, InRep)), ScanStop(c, SeqOf(r, OutRep))>>
  IN RunsOk(r.runs, 1, 0, c, exp)
\* word-level events: every prefix `pre` over a boundary-value alphabet, followed by each of
\* the 256 byte values - the block arithmetic with every kind of neighbour (a wrapping
\* subtraction / addition on the whole word lets neighbouring lanes influence each other)
\*   {"ev":"scanw", backend, cls, pre, runs}
WordOk(r) ==
  LET c == ClsName(r.cls)
      exp == <<ScanStop(c, Append(r.pre, InRep)), ScanStop(c, Append(r.pre, OutRep))>>
  IN RunsOk(r.runs, 1, 0, c, exp)
TInit == l = 1
TScan == l <= Len(Rec) /\ Rec[l].ev = "scan" /\ ScanOk(Rec[l]) /\ l' = l + 1
TWord == l <= Len(Rec) /\ Rec[l].ev = "scanw" /\ WordOk(Rec[l]) /\ l' = l + 1
TSpec == TInit /\ [][TScan \/ TWord]_l
Accepted ==
  IF TLCGet("stats").diameter - 1 = Len(Rec) THEN TRUE
  ELSE PrintT(<<"REJECT", TLCGet("stats").diameter, Len(Rec)>>) /\ FALSE
=============================================================================
