------------------------------ MODULE TraceFeed ------------------------------
(***************************************************************************)
(* Implementation -> specification: per-byte streaming traces.  The driver *)
(* parses buf[..k] with a fresh value for EVERY k of an input and logs the *)
(* real result of each call; TLC replays the bytes through Step and        *)
(* evaluates, at every step of every recorded trace,                       *)
(*   - conformance of the recorded result to the automaton state, split by *)
(*     property so that a rejection names what was contradicted;           *)
(*   - the listed properties directly on the RECORDED results (stability   *)
(*     under appending, framing against the independent first-empty-line   *)
(*     definition, spans, hygiene): these do not depend on the automaton   *)
(*     agreeing with the code.                                             *)
(* Events: {"ev":"reset",kind,cfg,cap} starts a new input; {"ev":"feed",    *)
(* b, st,n,err, m,p (method/path spans or [-1,-1]), v,c (version/code or   *)
(* -1), r (reason span, [-1,-1] absent), h (headers as [ns,ne,vs,ve]) }.   *)
(***************************************************************************)
EXTENDS Props, Json, IOUtils

CONSTANT CheckNames      \* set of the checks (names below) this run judges
Rec == ndJsonDeserialize(IOEnv.TRACE)
VARIABLES l, s, buf, last, prev
tvars == <<l, s, buf, last, prev>>

KindName(i) == CASE i = 0 -> "req" [] i = 1 -> "resp" [] i = 2 -> "hdrs" [] i = 3 -> "chunk"
NoRec == [ev |-> "none"]
TInit == /\ l = 1 /\ s = InitState("req", DefCfg, 0) /\ buf = <<>> /\ last = NoRec /\ prev = NoRec

Live == last.ev = "feed"
StOf(x) == CASE x = 0 -> "P" [] x = 1 -> "C" [] x = 2 -> "E"
Absent(sp) == sp[1] < 0
\* recorded span equals a specification span (empty spans compare as empty, wherever they are)
SpanIs(sp, want) == IF want[1] = want[2] THEN sp[1] = sp[2] /\ sp[1] >= 0 ELSE sp = want
InStartLine == s.kind \in {"req", "resp"} /\ s.hstart = 0
DefaultHdrs == ~s.hc.A /\ ~s.hc.F /\ ~s.hc.S /\ ~s.hc.I
VerdictOk == /\ StOf(last.st) = s.st
             /\ s.st = "C" => last.n = s.n
TooMany == (s.st = "E" /\ s.err = "TooManyHeaders") \/ (last.st = 2 /\ last.err = 7)

\* ---- conformance, by property
ConfReqLine == Live /\ s.kind = "req" /\ InStartLine /\ ~TooMany => VerdictOk
ConfStatusLine == Live /\ s.kind = "resp" /\ InStartLine /\ ~TooMany => VerdictOk
ConfHdrsDefault == Live /\ s.kind # "chunk" /\ ~InStartLine /\ DefaultHdrs /\ ~TooMany => VerdictOk
ConfHdrsOptions == Live /\ s.kind # "chunk" /\ ~InStartLine /\ ~DefaultHdrs /\ ~TooMany => VerdictOk
ConfChunk == Live /\ s.kind = "chunk" => VerdictOk /\ (s.st = "C" => last.digits = s.digits)
ConfCapacity == Live /\ TooMany => VerdictOk /\ last.err = 7 /\ s.err = "TooManyHeaders"
ConfErrKind == Live /\ s.st = "E" /\ last.st = 2 => ErrId(s.err) = last.err
ConfHonest == Live /\ s.st = "E" => last.st # 0
ConfFieldsReq == Live /\ s.kind = "req" /\ s.st = "C" /\ last.st = 1 =>
                   SpanIs(last.m, s.method) /\ SpanIs(last.p, s.path) /\ last.v = s.version
ConfFieldsResp == Live /\ s.kind = "resp" /\ s.st = "C" /\ last.st = 1 =>
                   last.v = s.version /\ last.c = s.code /\ SpanIs(last.r, s.reason)
HeadersOk == /\ Len(last.h) = Len(s.hdrs)
             /\ \A i \in 1..Len(s.hdrs) :
                  /\ <<last.h[i][1], last.h[i][2]>> = s.hdrs[i][1]
                  /\ SpanIs(<<last.h[i][3], last.h[i][4]>>, s.hdrs[i][2])
ConfHeadersDefault == Live /\ s.kind # "chunk" /\ s.st = "C" /\ last.st = 1 /\ DefaultHdrs => HeadersOk
ConfHeadersOptions == Live /\ s.kind # "chunk" /\ s.st = "C" /\ last.st = 1 /\ ~DefaultHdrs => HeadersOk
ConfHeaderCount == Live /\ s.kind # "chunk" /\ s.st = "C" /\ last.st = 1 => Len(last.h) = Len(s.hdrs)
\* a field reported next to Partial already has its final value
ConfPartialFields ==
  Live /\ last.st = 0 /\ s.st = "P" =>
    /\ s.kind = "req" => /\ Absent(last.m) \/ (s.method # NoSpan /\ last.m = s.method)
                         /\ Absent(last.p) \/ (s.path # NoSpan /\ last.p = s.path)
                         /\ last.v < 0 \/ last.v = s.version
    /\ s.kind = "resp" => /\ last.v < 0 \/ last.v = s.version
                          /\ last.c < 0 \/ last.c = s.code
                          /\ Absent(last.r) \/ (s.hasreason /\ SpanIs(last.r, s.reason))

\* ---- the properties on the recorded results themselves
RecFinal(r) == r.ev = "feed" /\ r.st # 0
SameRec(a, b) == /\ a.st = b.st /\ a.n = b.n /\ a.err = b.err /\ a.m = b.m /\ a.p = b.p /\ a.v = b.v
                 /\ a.c = b.c /\ a.r = b.r /\ a.h = b.h /\ a.digits = b.digits
RecStable == Live /\ RecFinal(prev) => SameRec(prev, last)                          \* C02
RecFieldsStable ==                                                                 \* C02
  Live /\ prev.ev = "feed" /\ prev.st = 0 /\ last.st # 2 =>
    /\ ~Absent(prev.m) => last.m = prev.m
    /\ ~Absent(prev.p) => last.p = prev.p
    /\ prev.v >= 0 => last.v = prev.v
    /\ prev.c >= 0 => last.c = prev.c
    /\ ~Absent(prev.r) => last.r = prev.r
\* a state with the recorded verdict but otherwise the specification's bookkeeping
AsRecorded == [s EXCEPT !.st = StOf(last.st), !.n = last.n]
RecFraming == Live /\ last.st # 2 => Framing(AsRecorded, buf)                          \* C03
RecFramingC == Live /\ last.st = 1 =>                                               \* C03
  /\ last.n <= Len(buf) /\ last.n >= 1 /\ buf[last.n] = LF
RecSpans ==                                                                         \* C04
  Live =>
    LET f == (IF Absent(last.m) THEN <<>> ELSE <<last.m>>) \o (IF Absent(last.p) THEN <<>> ELSE <<last.p>>)
             \o (IF Absent(last.r) THEN <<>> ELSE <<last.r>>)
             \o [i \in 1..(2 * Len(last.h)) |->
                   IF i % 2 = 1 THEN <<last.h[(i + 1) \div 2][1], last.h[(i + 1) \div 2][2]>>
                   ELSE <<last.h[(i + 1) \div 2][3], last.h[(i + 1) \div 2][4]>>]
    IN /\ \A i \in 1..Len(f) : f[i][1] < f[i][2] => f[i][1] >= 0 /\ f[i][2] <= Len(buf)
       /\ last.st = 1 =>
            /\ \A i \in 1..Len(f) : f[i][1] < f[i][2] => f[i][2] <= last.n
            /\ \A i, j \in 1..Len(f) : (i < j /\ f[i][1] < f[i][2] /\ f[j][1] < f[j][2]) => f[i][2] <= f[j][1]
RecState ==
  [s EXCEPT !.st = "C", !.n = last.n,
            !.method = IF Absent(last.m) THEN NoSpan ELSE last.m,
            !.path = IF Absent(last.p) THEN NoSpan ELSE last.p,
            !.version = last.v, !.code = last.c,
            !.reason = IF Absent(last.r) THEN NoSpan ELSE last.r,
            !.hdrs = [i \in 1..Len(last.h) |-> << <<last.h[i][1], last.h[i][2]>>, <<last.h[i][3], last.h[i][4]>> >>]]
RecHygiene == Live /\ last.st = 1 /\ s.kind # "chunk" /\ RecSpans => Hygiene(RecState, buf)   \* C05

Holds(name) ==
  CASE name = "ConfReqLine" -> ConfReqLine [] name = "ConfStatusLine" -> ConfStatusLine
    [] name = "ConfHdrsDefault" -> ConfHdrsDefault [] name = "ConfHdrsOptions" -> ConfHdrsOptions
    [] name = "ConfChunk" -> ConfChunk [] name = "ConfCapacity" -> ConfCapacity
    [] name = "ConfErrKind" -> ConfErrKind [] name = "ConfHonest" -> ConfHonest
    [] name = "ConfFieldsReq" -> ConfFieldsReq [] name = "ConfFieldsResp" -> ConfFieldsResp
    [] name = "ConfHeadersDefault" -> ConfHeadersDefault [] name = "ConfHeadersOptions" -> ConfHeadersOptions
    [] name = "ConfHeaderCount" -> ConfHeaderCount [] name = "ConfPartialFields" -> ConfPartialFields
    [] name = "RecStable" -> RecStable [] name = "RecFieldsStable" -> RecFieldsStable
    [] name = "RecFraming" -> RecFraming [] name = "RecFramingC" -> RecFramingC
    [] name = "RecSpans" -> RecSpans [] name = "RecHygiene" -> RecHygiene
    [] name = "NoPanic" -> (Live => ~last.panicked)
AllChecks == <<"NoPanic", "ConfReqLine", "ConfStatusLine", "ConfHdrsDefault", "ConfHdrsOptions", "ConfChunk",
               "ConfCapacity", "ConfErrKind", "ConfHonest", "ConfFieldsReq", "ConfFieldsResp",
               "ConfHeadersDefault", "ConfHeadersOptions", "ConfHeaderCount", "ConfPartialFields",
               "RecStable", "RecFieldsStable", "RecFramingC", "RecFraming", "RecSpans", "RecHygiene">>
FirstBad ==
  LET failed == {i \in 1..Len(AllChecks) : AllChecks[i] \in CheckNames /\ ~Holds(AllChecks[i])} IN
  IF failed = {} THEN "" ELSE AllChecks[CHOOSE i \in failed : \A j \in failed : i <= j]

\* The checks judge the state reached by the previous event; they are evaluated as the
\* enabling condition of the next event (the driver ends every file with an "end"
\* event).  The first failing check is printed with the index of the event it judges,
\* and the trace stops being accepted there.
TCheck == LET fb == FirstBad IN IF fb = "" THEN TRUE ELSE PrintT(<<"BAD", fb, l - 1>>) /\ FALSE
TReset == /\ l <= Len(Rec) /\ Rec[l].ev = "reset" /\ TCheck /\ l' = l + 1
          /\ s' = InitState(KindName(Rec[l].kind), CfgOfBits(Rec[l].cfg), Rec[l].cap)
          /\ buf' = <<>> /\ last' = NoRec /\ prev' = NoRec
TFeed == /\ l <= Len(Rec) /\ Rec[l].ev = "feed" /\ TCheck /\ l' = l + 1
         /\ s' = Step(s, Rec[l].b) /\ buf' = Append(buf, Rec[l].b)
         /\ last' = Rec[l] /\ prev' = last
TEnd == /\ l <= Len(Rec) /\ Rec[l].ev = "end" /\ TCheck /\ l' = l + 1
        /\ UNCHANGED <<s, buf>> /\ last' = NoRec /\ prev' = NoRec
TNext == TReset \/ TFeed \/ TEnd
TSpec == TInit /\ [][TNext]_tvars

Accepted ==
  IF TLCGet("stats").diameter - 1 = Len(Rec) THEN TRUE
  ELSE PrintT(<<"REJECT", TLCGet("stats").diameter, Len(Rec)>>) /\ FALSE
=============================================================================
