------------------------------- MODULE ApaChunk -------------------------------
(***************************************************************************)
(* C09 "never wrapped or truncated": with at most 16 hex digits the        *)
(* accumulated chunk size stays below 16^count <= 2^64, so `size * 16 + d` *)
(* in parse_chunk_size cannot overflow a u64 (unbounded integers here).    *)
(* IndInv is inductive for the digit step guarded by `count <= 15`; the    *)
(* loosened guard `count <= 16` is refuted (see DigitLoose / NoOverflow).  *)
(*   apalache-mc check --init=IndInit --inv=IndInv --next=Next --length=1  *)
(***************************************************************************)
EXTENDS Integers
VARIABLES
  \* @type: Int;
  count,
  \* @type: Int;
  size

\* @type: (Int) => Int;
Pow16(c) == IF c = 0 THEN 1 ELSE IF c = 1 THEN 16 ELSE IF c = 2 THEN 256 ELSE IF c = 3 THEN 4096
  ELSE IF c = 4 THEN 65536 ELSE IF c = 5 THEN 1048576 ELSE IF c = 6 THEN 16777216
  ELSE IF c = 7 THEN 268435456 ELSE IF c = 8 THEN 4294967296 ELSE IF c = 9 THEN 68719476736
  ELSE IF c = 10 THEN 1099511627776 ELSE IF c = 11 THEN 17592186044416
  ELSE IF c = 12 THEN 281474976710656 ELSE IF c = 13 THEN 4503599627370496
  ELSE IF c = 14 THEN 72057594037927936 ELSE IF c = 15 THEN 1152921504606846976
  ELSE 18446744073709551616
U64Max == 18446744073709551615

Init == count = 0 /\ size = 0
IndInv == count \in 0..16 /\ size >= 0 /\ size < Pow16(count)
IndInit == count \in Int /\ size \in Int /\ IndInv
NoOverflow == size <= U64Max
\* the code: `if count > 15 { return Err }; count += 1; size = size * 16 + digit`
Digit == count <= 15 /\ \E d \in 0..15 : size' = size * 16 + d /\ count' = count + 1
Stutter == UNCHANGED <<count, size>>
Next == Digit \/ Stutter
\* the slip `count > 16`: one digit too many
DigitLoose == count <= 16 /\ \E d \in 0..15 : size' = size * 16 + d /\ count' = count + 1
NextLoose == DigitLoose \/ Stutter
Safe == IndInv /\ NoOverflow
=============================================================================
