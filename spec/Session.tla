------------------------------- MODULE Session -------------------------------
(***************************************************************************)
(* Histories of calls on ONE Request/Response value and ONE header array   *)
(* (properties C17, C18; the README loop "parse, read more, parse again"). *)
(*                                                                         *)
(* The value is modelled the way the code treats it: a record of fields    *)
(* that a call ASSIGNS at the points where the automaton determines them,  *)
(* and otherwise leaves as they were (stale), plus `exposed`, the current  *)
(* length of its `headers` slice, plus the caller's array `slots`.  A call *)
(* runs the automaton with capacity = exposed (initialised-array entry     *)
(* points) or = length of the uninitialised array passed in.               *)
(*   Complete:  fields := this run's, exposed := number of headers         *)
(*   otherwise: fields := this run's where determined, else unchanged;     *)
(*              exposed unchanged (the whole array is put back)            *)
(***************************************************************************)
EXTENDS Head

\* one call on value v = [kind, method, path, version, code, hasreason, reason, exposed, slots]
NewValue(kind, cap) ==
  [kind |-> kind, method |-> NoSpan, path |-> NoSpan, version |-> NoVal, code |-> NoVal,
   hasreason |-> FALSE, reason |-> NoSpan, exposed |-> cap,
   slots |-> [i \in 1..cap |-> "prev"], bufid |-> 0]

Result(v, cfg, cap, buf) == Run(v.kind, cfg, cap, buf)

\* the value after a call whose automaton run is r (bufid identifies the buffer)
After(v, r, uninit, id) ==
  [v EXCEPT !.method = IF r.method # NoSpan THEN r.method ELSE @,
            !.path = IF r.path # NoSpan THEN r.path ELSE @,
            !.version = IF r.version # NoVal THEN r.version ELSE @,
            !.code = IF r.code # NoVal THEN r.code ELSE @,
            !.hasreason = r.hasreason \/ @,
            !.reason = IF r.hasreason THEN r.reason ELSE @,
            !.exposed = IF r.st = "C" THEN Len(r.hdrs) ELSE @,
            !.bufid = id,
            !.slots = IF uninit THEN @        \* the uninit array is a different array
                      ELSE [i \in 1..Len(@) |-> IF i <= Len(r.hdrs) THEN <<id, i>> ELSE @[i]]]

\* what a caller may rely on after the call
Observable(v, r) ==
  [st |-> r.st, n |-> r.n, err |-> IF r.st = "E" THEN r.err ELSE "",
   fields |-> IF r.st = "C" THEN <<v.method, v.path, v.version, v.code, v.hasreason, v.reason>> ELSE <<>>,
   hdrs |-> IF r.st = "C" THEN r.hdrs ELSE <<>>,
   exposed |-> v.exposed]
=============================================================================
