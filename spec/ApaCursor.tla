------------------------------ MODULE ApaCursor ------------------------------
(***************************************************************************)
(* The contract of Cursor.tla for UNBOUNDED buffer lengths: `IndInv` is an *)
(* inductive invariant of the cursor operations under their documented     *)
(* preconditions.  Checked with Apalache (symbolic, integers unbounded):   *)
(*   base:  apalache-mc check --init=CInit   --inv=IndInv --length=0       *)
(*   step:  apalache-mc check --init=IndInit --inv=IndInv --length=1       *)
(* Operation arguments are the extra variable `arg` (Apalache does not     *)
(* quantify over Nat).  Same actions as Cursor.tla, same names.            *)
(***************************************************************************)
EXTENDS Integers

VARIABLES
  \* @type: Int;
  len,
  \* @type: Int;
  start,
  \* @type: Int;
  cursor,
  \* @type: Int;
  end,
  \* @type: Int;
  lastEnd,
  \* @type: Int;
  arg,
  \* @type: Int;
  arg2

Bounds == 0 <= start /\ start <= cursor /\ cursor <= end /\ end <= len
SliceBounds == 0 <= lastEnd /\ lastEnd <= end
IndInv == Bounds /\ SliceBounds /\ len >= 0

CInit == /\ len \in Nat /\ start = 0 /\ cursor = 0 /\ end = len /\ lastEnd = 0 /\ arg = 0 /\ arg2 = 0
IndInit == /\ len \in Int /\ start \in Int /\ cursor \in Int /\ end \in Int /\ lastEnd \in Int
           /\ arg \in Int /\ arg2 \in Int /\ IndInv

PickArgs == arg' \in Int /\ arg2' \in Int
New == /\ PickArgs /\ 0 <= arg' /\ arg' <= arg2' /\ arg2' <= len
       /\ start' = arg' /\ cursor' = arg' /\ end' = arg2' /\ lastEnd' = arg' /\ UNCHANGED len
Advance == /\ PickArgs /\ arg' >= 0 /\ arg' <= end - cursor
           /\ cursor' = cursor + arg' /\ UNCHANGED <<len, start, end, lastEnd>>
NextByte == /\ PickArgs /\ cursor' = (IF cursor < end THEN cursor + 1 ELSE cursor)
            /\ UNCHANGED <<len, start, end, lastEnd>>
HandOut == /\ PickArgs /\ arg' >= 0 /\ arg' <= cursor - start
           /\ lastEnd' = cursor - arg' /\ UNCHANGED <<len, start, cursor, end>>
Commit == PickArgs /\ start' = cursor /\ UNCHANGED <<len, cursor, end, lastEnd>>
SetCursor == /\ PickArgs /\ start <= arg' /\ arg' <= end
             /\ cursor' = arg' /\ UNCHANGED <<len, start, end, lastEnd>>
\* peeks and block loads read [cursor, cursor + arg) and change nothing; the reads stay inside
ReadOnly == /\ PickArgs /\ arg' >= 0 /\ arg' <= end - cursor
            /\ UNCHANGED <<len, start, cursor, end, lastEnd>>
Next == New \/ Advance \/ NextByte \/ HandOut \/ Commit \/ SetCursor \/ ReadOnly

\* what the contract buys (C01): every byte a read-only operation touches lies in the buffer
ReadsInside == arg >= 0 /\ arg <= end - cursor => 0 <= cursor /\ cursor + arg <= len
=============================================================================
