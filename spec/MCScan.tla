------------------------------- MODULE MCScan -------------------------------
(***************************************************************************)
(* Model checking of Scan.tla.                                             *)
(*  "grow":   all sequences over a boundary-value alphabet up to length N  *)
(*            (grown by Next so that TLC parallelises) - the word-at-a-time *)
(*            block functions and loops against ScanStop, block sizes 8, 4; *)
(*  "struct": filler^(p-1) . b . filler^(q-p-1) . b2 . filler^(n-q) for    *)
(*            every length n in Lens, positions p < q, bytes b in PBytes,  *)
(*            b2 in QBytes - every backend against ScanStop at every lane  *)
(*            phase.                                                       *)
(***************************************************************************)
EXTENDS Scan
CONSTANTS Mode, Alpha, N, Lens, PBytes, QBytes, Fillers, MCBackends
VARIABLES seq, stage, len, fill
svars == <<seq, stage, len, fill>>

Init == seq = <<>> /\ stage = 0 /\ len = 0 /\ fill = 97
GrowNext == Mode = "grow" /\ Len(seq) < N /\ \E b \in Alpha : seq' = Append(seq, b) /\ UNCHANGED <<stage, len, fill>>
StructNext ==
  /\ Mode = "struct"
  /\ \/ stage = 0 /\ \E n \in Lens, f \in Fillers : len' = n /\ fill' = f /\ seq' = [i \in 1..n |-> f] /\ stage' = 1
     \/ stage = 1 /\ \E p \in 1..len, b \in PBytes :
                        seq' = [seq EXCEPT ![p] = b] /\ stage' = 2 /\ UNCHANGED <<len, fill>>
     \/ stage = 2 /\ \E d \in {1, 7, 16}, b \in QBytes :
                        LET p == CHOOSE i \in 1..len : seq[i] # fill \/ i = len IN
                        /\ p + d <= len /\ seq[p + d] = fill
                        /\ seq' = [seq EXCEPT ![p + d] = b] /\ stage' = 3 /\ UNCHANGED <<len, fill>>
Next == GrowNext \/ StructNext
Spec == Init /\ [][Next]_svars

Exact == \A bk \in MCBackends, c \in ClassNames : Scanner(bk, c, seq) = ScanStop(c, seq)
Sound == \A c \in {"uri", "val"} :
           /\ Len(seq) >= 8 => BlockSound(c, SubSeq(seq, 1, 8)) /\ BlockSound(c, SubSeq(seq, Len(seq) - 7, Len(seq)))
           /\ Len(seq) >= 4 => BlockSound(c, SubSeq(seq, 1, 4))
\* each scanner result as one JSON-free tuple, for the spec->impl direction
=============================================================================
