-------------------------------- MODULE Multi --------------------------------
(***************************************************************************)
(* Relational properties as ordinary state invariants of lock-step         *)
(* products: several Head automata fed the SAME bytes.                     *)
(*   cfgs : one automaton per option set of the kind          (C15)        *)
(*   caps : one per header capacity 0,1,2,Inf (default opts)  (C17)        *)
(*   emb  : the header-block automaton next to the request and response    *)
(*          automata that first consumed a canonical start line (C16)      *)
(***************************************************************************)
EXTENDS Head
CONSTANTS PKind,      \* "req" or "resp": the kind the cfgs / caps products run
          Alpha, Depth
VARIABLES buf, cfgs, caps, emb, depth
mvars == <<buf, cfgs, caps, emb, depth>>

CapSet == {0, 1, 2, Inf}
ReqLine == <<71, 69, 84, 32, 47, 32, 72, 84, 84, 80, 47, 49, 46, 49, 13, 10>>      \* "GET / HTTP/1.1\r\n"
StatusLine == <<72, 84, 84, 80, 47, 49, 46, 49, 32, 50, 48, 48, 32, 79, 75, 10>>   \* "HTTP/1.1 200 OK\n"

\* byte strings the products are started after
Prefixes ==
  IF PKind = "req"
  THEN {<<>>, <<71, 69, 84, 32>>, <<71, 69, 84, 32, 47, 32, 72, 84, 84, 80, 47, 49, 46, 49>>, ReqLine,
        ReqLine \o <<97, 58, 98, 10>>, ReqLine \o <<97, 58, 98, 10, 99, 58, 10>>}
  ELSE {<<>>, <<72, 84, 84, 80, 47, 49, 46, 49, 32, 50, 48, 48>>, StatusLine,
        StatusLine \o <<97, 58, 98, 10>>, StatusLine \o <<97, 58, 98, 10, 99, 58, 10>>}
Init == \E p \in Prefixes :
          /\ buf = p /\ depth = 0
          /\ cfgs = [c \in CfgsOf(PKind) |-> Run(PKind, c, Inf, p)]
          /\ caps = [n \in CapSet |-> Run(PKind, DefCfg, n, p)]
          /\ emb = [hdrs |-> InitState("hdrs", DefCfg, Inf),
                    req |-> Run("req", DefCfg, Inf, ReqLine),
                    resp |-> Run("resp", DefCfg, Inf, StatusLine)]
Next == /\ depth < Depth /\ depth' = depth + 1
        /\ \E b \in Alpha :
             /\ buf' = Append(buf, b)
             /\ cfgs' = [c \in DOMAIN cfgs |-> Step(cfgs[c], b)]
             /\ caps' = [n \in DOMAIN caps |-> Step(caps[n], b)]
             /\ emb' = [hdrs |-> Step(emb.hdrs, b), req |-> Step(emb.req, b), resp |-> Step(emb.resp, b)]
Spec == Init /\ [][Next]_mvars

\* ---------------------------------------------------------------- C15
\* leading SP of the default reason are stripped under Mr, nothing else differs
ReasonModMr(d, x) ==
  \/ x.reason = d.reason
  \/ /\ x.M /\ x.kind = "resp"
     /\ IF x.reason = NoSpan THEN \A i \in (d.reason[1] + 1)..d.reason[2] : buf[i] = SP
        ELSE /\ x.reason[2] = d.reason[2] /\ x.reason[1] >= d.reason[1]
             /\ \A i \in (d.reason[1] + 1)..x.reason[1] : buf[i] = SP
             /\ buf[x.reason[1] + 1] # SP
NormV(v) == IF v[1] = v[2] THEN NoSpan ELSE v
SameHdrs(a, b) == /\ Len(a.hdrs) = Len(b.hdrs)
                  /\ \A i \in 1..Len(a.hdrs) : a.hdrs[i][1] = b.hdrs[i][1] /\ NormV(a.hdrs[i][2]) = NormV(b.hdrs[i][2])
Conservative ==
  LET d == cfgs[DefCfg] IN
  d.st = "C" => \A c \in DOMAIN cfgs :
                  LET x == cfgs[c] IN
                  /\ x.st = "C" /\ x.n = d.n /\ x.method = d.method /\ x.path = d.path
                  /\ x.version = d.version /\ x.code = d.code /\ SameHdrs(x, d)
                  /\ ReasonModMr(d, x)

\* ---------------------------------------------------------------- C17
EqualModCap(a, b) == [a EXCEPT !.cap = 0] = [b EXCEPT !.cap = 0]
CapacityLaw ==
  LET u == caps[Inf] IN
  \A n \in CapSet \ {Inf} :
     LET c == caps[n] IN
     IF c.st = "E" /\ c.err = "TooManyHeaders"
     THEN \* exactly one more header than the array holds had been completed when it was raised
          Len(c.hdrs) = n /\ (u.st = "E" \/ Len(u.hdrs) >= n + 1)
     ELSE Len(u.hdrs) <= n /\ EqualModCap(c, u)
\* stored headers never exceed the capacity, in any state
WithinCapacity == \A n \in CapSet : Len(caps[n].hdrs) <= n

\* ---------------------------------------------------------------- C16
Shift(sp, k) == IF sp = NoSpan THEN NoSpan ELSE <<sp[1] + k, sp[2] + k>>
Embedded(h, m, k) ==       \* header-block automaton h versus message automaton m, k = start-line length
  /\ m.st = h.st /\ m.ph = h.ph
  /\ h.st = "C" => m.n = h.n + k
  /\ h.st = "E" => m.err = h.err
  /\ Len(m.hdrs) = Len(h.hdrs)
  /\ \A i \in 1..Len(h.hdrs) : /\ m.hdrs[i][1] = Shift(h.hdrs[i][1], k)
                               /\ NormV(m.hdrs[i][2]) = NormV(Shift(h.hdrs[i][2], k))
EntryKindsAgree == Embedded(emb.hdrs, emb.req, Len(ReqLine)) /\ Embedded(emb.hdrs, emb.resp, Len(StatusLine))
=============================================================================
