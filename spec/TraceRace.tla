------------------------------ MODULE TraceRace ------------------------------
(***************************************************************************)
(* C13, implementation -> specification: cold-start races.  In a fresh     *)
(* process N threads make their first parse call together; hook H3 records *)
(* per thread, without any cross-thread ordering, the values it loaded     *)
(* from / stored to the backend cell and the backend id it dispatched on:  *)
(*   {"ev":"proc","cpu":id,"threads":[[[what,value],...],...],"same":1}    *)
(* what: 0 load, 1 store, 2 dispatch.  The global interleaving is not      *)
(* logged; the trace is accepted iff SOME interleaving of the per-thread   *)
(* sequences is a behaviour of Runtime.tla.  Loads and dispatches do not   *)
(* change the cell, so scheduling them as early as possible and stores as  *)
(* late as possible loses no interleaving (a deterministic search).        *)
(***************************************************************************)
EXTENDS Naturals, Sequences, FiniteSets, TLC, Json, IOUtils

Rec == ndJsonDeserialize(IOEnv.TRACE)
VARIABLE l

\* thread-local shape: (load v, [store w], dispatch d)* with v # 0 => no store, d = v;
\* v = 0 => store w follows, w = cpu, d = w
RECURSIVE LocalOk(_, _, _)
LocalOk(ops, i, cpu) ==
  IF i > Len(ops) THEN TRUE
  ELSE /\ ops[i][1] = 0
       /\ IF ops[i][2] = 0
          THEN /\ i + 2 <= Len(ops) /\ ops[i + 1] = <<1, cpu>> /\ ops[i + 2] = <<2, cpu>>
               /\ LocalOk(ops, i + 3, cpu)
          ELSE /\ i + 1 <= Len(ops) /\ ops[i + 1] = <<2, ops[i][2]>> /\ ops[i][2] = cpu
               /\ LocalOk(ops, i + 2, cpu)

\* global: does an interleaving exist?  pos[t] = next op of thread t
RECURSIVE Sched(_, _, _)
Sched(th, cell, pos) ==
  LET T == 1..Len(th)
      live == {t \in T : pos[t] <= Len(th[t])}
      free == {t \in live : \/ th[t][pos[t]][1] = 2
                            \/ th[t][pos[t]][1] = 0 /\ th[t][pos[t]][2] = cell}
      stores == {t \in live : th[t][pos[t]][1] = 1}
  IN IF live = {} THEN TRUE
     ELSE IF free # {} THEN
          LET t == CHOOSE x \in free : \A y \in free : x <= y IN
          Sched(th, cell, [pos EXCEPT ![t] = @ + 1])
     ELSE IF stores # {} THEN
          LET t == CHOOSE x \in stores : \A y \in stores : x <= y IN
          Sched(th, th[t][pos[t]][2], [pos EXCEPT ![t] = @ + 1])
     ELSE FALSE
ProcOk(r) ==
  /\ \A t \in 1..Len(r.threads) : LocalOk(r.threads[t], 1, r.cpu)
  /\ Sched(r.threads, 0, [t \in 1..Len(r.threads) |-> 1])
  /\ r.same = 1                          \* every thread got the same parse result
TInit == l = 1
TProc == l <= Len(Rec) /\ Rec[l].ev = "proc" /\ ProcOk(Rec[l]) /\ l' = l + 1
TSpec == TInit /\ [][TProc]_l
Accepted ==
  IF TLCGet("stats").diameter - 1 = Len(Rec) THEN TRUE
  ELSE PrintT(<<"REJECT", TLCGet("stats").diameter, Len(Rec)>>) /\ FALSE
=============================================================================
