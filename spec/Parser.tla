------------------------------- MODULE Parser -------------------------------
(***************************************************************************)
(* The implementation-shaped layer: a PlusCal transcription of             *)
(*   Request::parse_with_config_and_uninit_headers,                        *)
(*   Response::parse_with_config_and_uninit_headers,                       *)
(*   parse_headers_iter_uninit and parse_chunk_size                        *)
(* of src/lib.rs at CURSOR-OPERATION granularity: peek / next / advance /  *)
(* slice / slice_skip(k) with the k used at each site, the peek_n(4)       *)
(* GET / POST fast paths with peek_ahead(4), the peek_n(8) version compare *)
(* and its byte-wise fallback, the whitespace loops, the one-byte fold     *)
(* lookahead, `handle_invalid_char!`, the trailing-whitespace trim.  The   *)
(* three byte-class scanners are single atomic steps here (their inside is *)
(* Scan.tla).                                                              *)
(*                                                                         *)
(* MCParser checks, for all buffers Prefix . w (w over an alphabet, up to  *)
(* a length bound) and hence for all their prefixes:                       *)
(*  (i)   every cursor operation satisfies the contract of Cursor.tla      *)
(*        (the `assert`s below are the documented unsafe preconditions);   *)
(*  (ii)  the algorithm terminates (<>Done under weak fairness);           *)
(*  (iii) travel <= Len(buf): strictly forward, nothing re-read;           *)
(*  (iv)  REFINEMENT: the result at termination equals the byte-at-a-time  *)
(*        automaton of Head.tla on the same bytes - verdict, offset,       *)
(*        error kind, every field span, every header, the digit sequence,  *)
(*        including the fields already assigned when the call returns      *)
(*        Partial.                                                         *)
(* This is the design-level content of C01 / C02 / C11 / C20: the          *)
(* algorithm with its lookahead and fast paths implements the automaton,   *)
(* never decides on bytes it has not seen, and never decides differently   *)
(* when it sees more.  Its binding to the code is deliberately soft (the   *)
(* code is bound to Cursor.tla by TraceOps and to Head.tla by vectors).    *)
(***************************************************************************)
EXTENDS Head
CONSTANTS Alpha, N, PKind, PCfgBits, PCap, PrefixSet

PCfg == CfgOfBits(PCfgBits)
PM == IF PKind = "req" THEN PCfg.Mq ELSE IF PKind = "resp" THEN PCfg.Mr ELSE FALSE
PHc == HdrCfg(PKind, PCfg)

\* buffers are Prefix . w; deeper phases are reached from seeded prefixes
ReqL == <<71, 69, 84, 32, 47, 32, 72, 84, 84, 80, 47, 49, 46, 49, 13, 10>>     \* "GET / HTTP/1.1\r\n"
RespL == <<72, 84, 84, 80, 47, 49, 46, 49, 32, 50, 48, 48, 32, 79, 75, 10>>    \* "HTTP/1.1 200 OK\n"
StartL == IF PKind = "req" THEN ReqL ELSE IF PKind = "resp" THEN RespL ELSE <<>>
Prefixes ==
  CASE PrefixSet = "start" ->
         (IF PKind = "req" THEN {<<>>, <<71, 69, 84, 32>>, <<80, 79, 83>>, <<71, 69, 84, 32, 47, 32>>, <<71, 69, 84, 32, 47, 32, 72, 84, 84, 80>>}
          ELSE IF PKind = "resp" THEN {<<>>, <<72, 84, 84, 80, 47, 49, 46>>, <<72, 84, 84, 80, 47, 49, 46, 49, 32>>,
                                       <<72, 84, 84, 80, 47, 49, 46, 49, 32, 50, 48, 48>>, <<72, 84, 84, 80, 47, 49, 46, 49, 32, 50, 48, 48, 32>>}
          ELSE IF PKind = "chunk" THEN {<<>>, <<49, 102>>, <<49, 32>>, <<49, 59>>}
          ELSE {<<>>})
    [] PrefixSet = "hdr" ->
         {StartL, StartL \o <<97>>, StartL \o <<97, 58>>, StartL \o <<97, 58, 32, 98>>,
          StartL \o <<97, 58, 98, 10>>, StartL \o <<97, 58, 98, 13>>, StartL \o <<97, 58, 13, 10>>,
          StartL \o <<97, 32>>, StartL \o <<120, 1>>, StartL \o <<97, 58, 98, 10, 99, 58, 100, 10>>}

GETSP == <<71, 69, 84, 32>>
POST == <<80, 79, 83, 84>>
H10 == <<72, 84, 84, 80, 47, 49, 46, 48>>
H11 == <<72, 84, 84, 80, 47, 49, 46, 49>>

\* a scanner: advance over bytes of a class (0-based cursor c)
RECURSIVE ScanClass(_, _, _)
ScanClass(bf, c, cls) ==
  IF c < Len(bf) /\ (CASE cls = "uri" -> IsTarget(bf[c + 1]) [] cls = "val" -> IsValue(bf[c + 1])
                       [] cls = "name" -> IsTchar(bf[c + 1]))
  THEN ScanClass(bf, c + 1, cls) ELSE c
\* rposition of a byte that is not SP / HTAB / CR / LF in bf[a+1 .. e]; a if none
RECURSIVE LastVis(_, _, _)
LastVis(bf, a, e) == IF e <= a THEN a
                     ELSE IF bf[e] \notin {SP, HT, CR, LF} THEN e ELSE LastVis(bf, a, e - 1)
Rem(bf, c) == Len(bf) - c

(* --fair algorithm Parser {
  variables buf \in Prefixes, start = 0, cursor = 0, b = 0, res = "", err = "", n = 0,
            method = NoSpan, path = NoSpan, version = NoVal, code = NoVal,
            hasreason = FALSE, reason = NoSpan, hdrs = <<>>, name = NoSpan,
            skp = 0, k = 0, acc = 0, obs = FALSE, ekind = "", hstart = 0,
            tstart = 0, tend = 0, digits = <<>>, inSize = TRUE, inExt = FALSE,
            travel = 0, ret = "", ext = 0;

  macro Next() {            \* next!(bytes): Partial if nothing is left
    if (cursor < Len(buf)) { b := buf[cursor + 1]; cursor := cursor + 1; travel := travel + 1 }
    else { res := "P"; goto Fin }
  }
  macro Advance(m) { assert m <= Rem(buf, cursor); cursor := cursor + m; travel := travel + m }
  macro SliceSkip(sk) { assert sk <= cursor - start; start := cursor }
  macro Slice() { start := cursor }
  macro Fail(e) { res := "E"; err := e; goto Fin }

  {
   Build: while (ext < N) {
            either { with (x \in Alpha) { buf := Append(buf, x); ext := ext + 1 } } or { goto Entry }
          };
   Entry:
     if (PKind = "hdrs") { goto Headers }
     else if (PKind = "chunk") { goto Chunk }
     else { goto SkipEmpty };

   \* ------------------------------------------------ skip_empty_lines
   SkipEmpty:
     if (cursor >= Len(buf)) { res := "P"; goto Fin }
     else if (buf[cursor + 1] = CR) { Advance(1); goto SkipEmptyLF }
     else if (buf[cursor + 1] = LF) { Advance(1); goto SkipEmpty }
     else { Slice(); if (PKind = "req") { goto Method } else { ret := "RespSpace"; goto Version } };
   SkipEmptyLF: Next();
   SkipEmptyLF2: if (b # LF) { Fail("NewLine") } else { goto SkipEmpty };

   \* ------------------------------------------------ parse_method (peek_n(4) fast paths)
   Method:
     if (Rem(buf, cursor) >= 4 /\ SubSeq(buf, cursor + 1, cursor + 4) = GETSP) {
        Advance(4); goto MethodFast
     } else if (Rem(buf, cursor) >= 4 /\ SubSeq(buf, cursor + 1, cursor + 4) = POST) {
        \* peek_ahead(4): its unsafe precondition is 4 <= len()
        assert 4 <= Rem(buf, cursor);
        if (Rem(buf, cursor) > 4 /\ buf[cursor + 5] = SP) { Advance(5); goto MethodFast }
        else { goto Token0 }
     } else { goto Token0 };
   MethodFast: method := <<start, cursor - 1>>; SliceSkip(1); goto AfterMethod;
   Token0: Next();
   Token0b: if (~IsTchar(b)) { Fail("Token") };
   TokenLoop: Next();
   TokenLoop2:
     if (b = SP) { method := <<start, cursor - 1>>; SliceSkip(1); goto AfterMethod }
     else if (~IsTchar(b)) { Fail("Token") }
     else { goto TokenLoop };
   AfterMethod: if (PM) { ret := "Uri"; goto Spaces } else { goto Uri };

   \* ------------------------------------------------ skip_spaces (returns to `ret`)
   Spaces:
     if (cursor >= Len(buf)) { res := "P"; goto Fin }
     else if (buf[cursor + 1] = SP) { Advance(1); goto Spaces }
     else { Slice(); goto SpacesRet };
   SpacesRet:
     if (ret = "Uri") { goto Uri } else if (ret = "Version") { goto Version }
     else if (ret = "Code") { goto Code } else { goto ReasonStart };

   \* ------------------------------------------------ parse_uri
   Uri:
     tstart := cursor;
     with (c2 = ScanClass(buf, cursor, "uri")) { travel := travel + (c2 - cursor); cursor := c2 };
     tend := cursor;
   Uri2: Next();
   Uri3:
     if (b = SP) {
        if (tend = tstart) { Fail("Token") }
        else if (Utf8Valid(SubSeq(buf, tstart + 1, tend))) { path := <<start, cursor - 1>>; SliceSkip(1) }
        else { Fail("Token") }
     } else { Fail("Token") };
   AfterUri: if (PM) { ret := "Version"; goto Spaces } else { ret := "Newline"; goto Version };

   \* ------------------------------------------------ parse_version: peek_n(8) or byte-wise
   Version:
     if (PKind = "req") { ret := "Newline" } else { ret := "RespSpace" };
     if (Rem(buf, cursor) >= 8) {
        with (eight = SubSeq(buf, cursor + 1, cursor + 8)) {
          Advance(8);
          if (eight = H10) { version := 0 } else if (eight = H11) { version := 1 } else { Fail("Version") }
        }
     } else { k := 0; goto VerShort };
   VerDone: if (ret = "Newline") { goto Newline } else { goto RespSpace };
   VerShort: Next();
   VerShort2:
     if (b # VerLit[k + 1]) { Fail("Version") }
     else { k := k + 1; if (k = 7) { res := "P"; goto Fin } else { goto VerShort } };

   \* ------------------------------------------------ newline! (request line end)
   Newline: Next();
   Newline2:
     if (b = CR) { goto NewlineLF } else if (b = LF) { Slice(); goto Headers } else { Fail("NewLine") };
   NewlineLF: Next();
   NewlineLF2: if (b # LF) { Fail("NewLine") } else { Slice(); goto Headers };

   \* ------------------------------------------------ response: space!, code, reason
   RespSpace: Next();
   RespSpace2:
     if (b # SP) { Fail("Version") }
     else { Slice(); if (PM) { ret := "Code"; goto Spaces } else { goto Code } };
   Code: k := 0; acc := 0;
   CodeDigit: Next();
   CodeDigit2:
     if (~IsDigit(b)) { Fail("Status") }
     else { acc := acc * 10 + (b - 48); k := k + 1;
            if (k < 3) { goto CodeDigit } else { code := acc } };
   AfterCode: Next();
   AfterCode2:
     if (b = SP) { if (PM) { ret := "Reason"; goto Spaces } else { goto ReasonStart } }
     else if (b = CR) { goto AfterCodeLF }
     else if (b = LF) { Slice(); hasreason := TRUE; reason := NoSpan; goto Headers }
     else { Fail("Status") };
   AfterCodeLF: Next();
   AfterCodeLF2:
     if (b # LF) { Fail("Status") } else { Slice(); hasreason := TRUE; reason := NoSpan; goto Headers };
   ReasonStart: Slice(); obs := FALSE;
   ReasonLoop: Next();
   ReasonLoop2:
     if (b = CR) { goto ReasonLF }
     else if (b = LF) {
        hasreason := TRUE; reason := IF obs THEN NoSpan ELSE <<start, cursor - 1>>; SliceSkip(1); goto Headers }
     else if (~IsReason(b)) { Fail("Status") }
     else { if (IsObs(b)) { obs := TRUE }; goto ReasonLoop };
   ReasonLF: Next();
   ReasonLF2:
     if (b # LF) { Fail("Status") }
     else { hasreason := TRUE; reason := IF obs THEN NoSpan ELSE <<start, cursor - 2>>; SliceSkip(2); goto Headers };

   \* ------------------------------------------------ parse_headers_iter_uninit
   Headers: hstart := cursor;
   HLoop: Next();
   HLoop2:
     if (b = CR) { goto HEndLF }
     else if (b = LF) { res := "C"; n := cursor; goto Fin }
     else if (~IsTchar(b)) {
        if (PHc.S /\ Len(hdrs) = 0 /\ IsWs(b)) { goto SkipWs }
        else { ekind := "HeaderName"; goto InvalidCh }
     } else { goto Name };
   HEndLF: Next();
   HEndLF2: if (b # LF) { Fail("NewLine") } else { res := "C"; n := cursor; goto Fin };
   SkipWs:   \* while let Some(peek) = bytes.peek() { if ws { next } else break }
     if (cursor < Len(buf) /\ IsWs(buf[cursor + 1])) { Advance(1); goto SkipWs }
     else { Slice(); goto HLoop };
   Name:
     with (c2 = ScanClass(buf, cursor, "name")) { travel := travel + (c2 - cursor); cursor := c2 };
   Name2: Next();
   Name3:
     name := <<start, cursor - 1>>; SliceSkip(1);
     if (b = COLON) { goto OwsLoop }
     else if (PHc.A /\ IsWs(b)) { goto NameWs }
     else { ekind := "HeaderName"; goto InvalidCh };
   NameWs: Next();          \* while b is ws { b = next!; if b == ':' { slice; break 'name } }
   NameWs2:
     if (b = COLON) { Slice(); goto OwsLoop }
     else if (IsWs(b)) { goto NameWs }
     else { ekind := "HeaderName"; goto InvalidCh };
   OwsLoop: Next();         \* 'whitespace_after_colon
   OwsLoop2:
     if (IsWs(b)) { Slice(); goto OwsLoop }
     else if (IsValue(b)) { goto ValueLines }
     else if (b = CR) { goto OwsLF }
     else if (b = LF) { goto OwsFold }
     else { ekind := "HeaderValue"; goto InvalidCh };
   OwsLF: Next();
   OwsLF2: if (b # LF) { Fail("HeaderValue") } else { goto OwsFold };
   OwsFold:                 \* maybe_continue_after_obsolete_line_folding!
     if (PHc.F) {
        if (cursor >= Len(buf)) { res := "P"; goto Fin }
        else if (IsWs(buf[cursor + 1])) { goto OwsLoop }
     };
   EmptyValue:              \* &whitespace_slice[0..0]
     tstart := start; tend := start; Slice(); goto StoreHdr;
   ValueLines:              \* 'value_lines
     with (c2 = ScanClass(buf, cursor, "val")) { travel := travel + (c2 - cursor); cursor := c2 };
   Value2: Next();
   Value3:
     if (b = CR) { goto ValueLF }
     else if (b = LF) { skp := 1; goto ValueFold }
     else { ekind := "HeaderValue"; goto InvalidCh };
   ValueLF: Next();
   ValueLF2: if (b # LF) { Fail("HeaderValue") } else { skp := 2; goto ValueFold };
   ValueFold:
     if (PHc.F) {
        if (cursor >= Len(buf)) { res := "P"; goto Fin }
        else if (IsWs(buf[cursor + 1])) { goto ValueLines }
     };
   ValueSlice:
     tstart := start; tend := LastVis(buf, start, cursor - skp); SliceSkip(skp);
   StoreHdr:                 \* iter.next(); trim; write; num_headers += 1
     if (Len(hdrs) >= PCap) { Fail("TooManyHeaders") }
     else { hdrs := Append(hdrs, <<name, <<tstart, tend>> >>); goto HLoop };
   InvalidCh:               \* handle_invalid_char!(bytes, b, ekind)
     if (~PHc.I) { Fail(ekind) };
   InvLoop:
     if (b = CR) { goto InvLF }
     else if (b = LF) { Slice(); goto HLoop }
     else if (b = NUL) { Fail(ekind) }
     else { goto InvNext };
   InvNext: Next();
   InvNext2: goto InvLoop;
   InvLF: Next();
   InvLF2: if (b # LF) { Fail(ekind) } else { Slice(); goto HLoop };

   \* ------------------------------------------------ parse_chunk_size
   Chunk: k := 0; inSize := TRUE; inExt := FALSE;
   ChunkLoop: Next();
   ChunkLoop2:
     if (k = 0 /\ ~IsHex(b)) { Fail("InvalidChunkSize") }
     else if (IsHex(b) /\ inSize) {
        if (k > 15) { Fail("InvalidChunkSize") }
        else { k := k + 1; digits := Append(digits, HexVal(b)); goto ChunkLoop }
     }
     else if (b = CR) { goto ChunkLF }
     else if (b = SEMI /\ ~inExt) { inExt := TRUE; inSize := FALSE; goto ChunkLoop }
     else if (IsWs(b) /\ ~inExt /\ ~inSize) { goto ChunkLoop }
     else if (IsWs(b) /\ inSize) { inSize := FALSE; goto ChunkLoop }
     else if (inExt) { goto ChunkLoop }
     else { Fail("InvalidChunkSize") };
   ChunkLF: Next();
   ChunkLF2: if (b = LF) { res := "C"; n := cursor } else { Fail("InvalidChunkSize") };

   Fin: skip;
  }
} *)
\* BEGIN TRANSLATION
VARIABLES pc, buf, start, cursor, b, res, err, n, method, path, version, code, 
          hasreason, reason, hdrs, name, skp, k, acc, obs, ekind, hstart, 
          tstart, tend, digits, inSize, inExt, travel, ret, ext

vars == << pc, buf, start, cursor, b, res, err, n, method, path, version, 
           code, hasreason, reason, hdrs, name, skp, k, acc, obs, ekind, 
           hstart, tstart, tend, digits, inSize, inExt, travel, ret, ext >>

Init == (* Global variables *)
        /\ buf \in Prefixes
        /\ start = 0
        /\ cursor = 0
        /\ b = 0
        /\ res = ""
        /\ err = ""
        /\ n = 0
        /\ method = NoSpan
        /\ path = NoSpan
        /\ version = NoVal
        /\ code = NoVal
        /\ hasreason = FALSE
        /\ reason = NoSpan
        /\ hdrs = <<>>
        /\ name = NoSpan
        /\ skp = 0
        /\ k = 0
        /\ acc = 0
        /\ obs = FALSE
        /\ ekind = ""
        /\ hstart = 0
        /\ tstart = 0
        /\ tend = 0
        /\ digits = <<>>
        /\ inSize = TRUE
        /\ inExt = FALSE
        /\ travel = 0
        /\ ret = ""
        /\ ext = 0
        /\ pc = "Build"

Build == /\ pc = "Build"
         /\ IF ext < N
               THEN /\ \/ /\ \E x \in Alpha:
                               /\ buf' = Append(buf, x)
                               /\ ext' = ext + 1
                          /\ pc' = "Build"
                       \/ /\ pc' = "Entry"
                          /\ UNCHANGED <<buf, ext>>
               ELSE /\ pc' = "Entry"
                    /\ UNCHANGED << buf, ext >>
         /\ UNCHANGED << start, cursor, b, res, err, n, method, path, version, 
                         code, hasreason, reason, hdrs, name, skp, k, acc, obs, 
                         ekind, hstart, tstart, tend, digits, inSize, inExt, 
                         travel, ret >>

Entry == /\ pc = "Entry"
         /\ IF PKind = "hdrs"
               THEN /\ pc' = "Headers"
               ELSE /\ IF PKind = "chunk"
                          THEN /\ pc' = "Chunk"
                          ELSE /\ pc' = "SkipEmpty"
         /\ UNCHANGED << buf, start, cursor, b, res, err, n, method, path, 
                         version, code, hasreason, reason, hdrs, name, skp, k, 
                         acc, obs, ekind, hstart, tstart, tend, digits, inSize, 
                         inExt, travel, ret, ext >>

SkipEmpty == /\ pc = "SkipEmpty"
             /\ IF cursor >= Len(buf)
                   THEN /\ res' = "P"
                        /\ pc' = "Fin"
                        /\ UNCHANGED << start, cursor, travel, ret >>
                   ELSE /\ IF buf[cursor + 1] = CR
                              THEN /\ Assert(1 <= Rem(buf, cursor), 
                                             "Failure of assertion at line 84, column 22 of macro called at line 101, column 39.")
                                   /\ cursor' = cursor + 1
                                   /\ travel' = travel + 1
                                   /\ pc' = "SkipEmptyLF"
                                   /\ UNCHANGED << start, ret >>
                              ELSE /\ IF buf[cursor + 1] = LF
                                         THEN /\ Assert(1 <= Rem(buf, cursor), 
                                                        "Failure of assertion at line 84, column 22 of macro called at line 102, column 39.")
                                              /\ cursor' = cursor + 1
                                              /\ travel' = travel + 1
                                              /\ pc' = "SkipEmpty"
                                              /\ UNCHANGED << start, ret >>
                                         ELSE /\ start' = cursor
                                              /\ IF PKind = "req"
                                                    THEN /\ pc' = "Method"
                                                         /\ ret' = ret
                                                    ELSE /\ ret' = "RespSpace"
                                                         /\ pc' = "Version"
                                              /\ UNCHANGED << cursor, travel >>
                        /\ res' = res
             /\ UNCHANGED << buf, b, err, n, method, path, version, code, 
                             hasreason, reason, hdrs, name, skp, k, acc, obs, 
                             ekind, hstart, tstart, tend, digits, inSize, 
                             inExt, ext >>

SkipEmptyLF == /\ pc = "SkipEmptyLF"
               /\ IF cursor < Len(buf)
                     THEN /\ b' = buf[cursor + 1]
                          /\ cursor' = cursor + 1
                          /\ travel' = travel + 1
                          /\ pc' = "SkipEmptyLF2"
                          /\ res' = res
                     ELSE /\ res' = "P"
                          /\ pc' = "Fin"
                          /\ UNCHANGED << cursor, b, travel >>
               /\ UNCHANGED << buf, start, err, n, method, path, version, code, 
                               hasreason, reason, hdrs, name, skp, k, acc, obs, 
                               ekind, hstart, tstart, tend, digits, inSize, 
                               inExt, ret, ext >>

SkipEmptyLF2 == /\ pc = "SkipEmptyLF2"
                /\ IF b # LF
                      THEN /\ res' = "E"
                           /\ err' = "NewLine"
                           /\ pc' = "Fin"
                      ELSE /\ pc' = "SkipEmpty"
                           /\ UNCHANGED << res, err >>
                /\ UNCHANGED << buf, start, cursor, b, n, method, path, 
                                version, code, hasreason, reason, hdrs, name, 
                                skp, k, acc, obs, ekind, hstart, tstart, tend, 
                                digits, inSize, inExt, travel, ret, ext >>

Method == /\ pc = "Method"
          /\ IF Rem(buf, cursor) >= 4 /\ SubSeq(buf, cursor + 1, cursor + 4) = GETSP
                THEN /\ Assert(4 <= Rem(buf, cursor), 
                               "Failure of assertion at line 84, column 22 of macro called at line 110, column 9.")
                     /\ cursor' = cursor + 4
                     /\ travel' = travel + 4
                     /\ pc' = "MethodFast"
                ELSE /\ IF Rem(buf, cursor) >= 4 /\ SubSeq(buf, cursor + 1, cursor + 4) = POST
                           THEN /\ Assert(4 <= Rem(buf, cursor), 
                                          "Failure of assertion at line 113, column 9.")
                                /\ IF Rem(buf, cursor) > 4 /\ buf[cursor + 5] = SP
                                      THEN /\ Assert(5 <= Rem(buf, cursor), 
                                                     "Failure of assertion at line 84, column 22 of macro called at line 114, column 61.")
                                           /\ cursor' = cursor + 5
                                           /\ travel' = travel + 5
                                           /\ pc' = "MethodFast"
                                      ELSE /\ pc' = "Token0"
                                           /\ UNCHANGED << cursor, travel >>
                           ELSE /\ pc' = "Token0"
                                /\ UNCHANGED << cursor, travel >>
          /\ UNCHANGED << buf, start, b, res, err, n, method, path, version, 
                          code, hasreason, reason, hdrs, name, skp, k, acc, 
                          obs, ekind, hstart, tstart, tend, digits, inSize, 
                          inExt, ret, ext >>

MethodFast == /\ pc = "MethodFast"
              /\ method' = <<start, cursor - 1>>
              /\ Assert(1 <= cursor - start, 
                        "Failure of assertion at line 85, column 25 of macro called at line 117, column 49.")
              /\ start' = cursor
              /\ pc' = "AfterMethod"
              /\ UNCHANGED << buf, cursor, b, res, err, n, path, version, code, 
                              hasreason, reason, hdrs, name, skp, k, acc, obs, 
                              ekind, hstart, tstart, tend, digits, inSize, 
                              inExt, travel, ret, ext >>

Token0 == /\ pc = "Token0"
          /\ IF cursor < Len(buf)
                THEN /\ b' = buf[cursor + 1]
                     /\ cursor' = cursor + 1
                     /\ travel' = travel + 1
                     /\ pc' = "Token0b"
                     /\ res' = res
                ELSE /\ res' = "P"
                     /\ pc' = "Fin"
                     /\ UNCHANGED << cursor, b, travel >>
          /\ UNCHANGED << buf, start, err, n, method, path, version, code, 
                          hasreason, reason, hdrs, name, skp, k, acc, obs, 
                          ekind, hstart, tstart, tend, digits, inSize, inExt, 
                          ret, ext >>

Token0b == /\ pc = "Token0b"
           /\ IF ~IsTchar(b)
                 THEN /\ res' = "E"
                      /\ err' = "Token"
                      /\ pc' = "Fin"
                 ELSE /\ pc' = "TokenLoop"
                      /\ UNCHANGED << res, err >>
           /\ UNCHANGED << buf, start, cursor, b, n, method, path, version, 
                           code, hasreason, reason, hdrs, name, skp, k, acc, 
                           obs, ekind, hstart, tstart, tend, digits, inSize, 
                           inExt, travel, ret, ext >>

TokenLoop == /\ pc = "TokenLoop"
             /\ IF cursor < Len(buf)
                   THEN /\ b' = buf[cursor + 1]
                        /\ cursor' = cursor + 1
                        /\ travel' = travel + 1
                        /\ pc' = "TokenLoop2"
                        /\ res' = res
                   ELSE /\ res' = "P"
                        /\ pc' = "Fin"
                        /\ UNCHANGED << cursor, b, travel >>
             /\ UNCHANGED << buf, start, err, n, method, path, version, code, 
                             hasreason, reason, hdrs, name, skp, k, acc, obs, 
                             ekind, hstart, tstart, tend, digits, inSize, 
                             inExt, ret, ext >>

TokenLoop2 == /\ pc = "TokenLoop2"
              /\ IF b = SP
                    THEN /\ method' = <<start, cursor - 1>>
                         /\ Assert(1 <= cursor - start, 
                                   "Failure of assertion at line 85, column 25 of macro called at line 122, column 53.")
                         /\ start' = cursor
                         /\ pc' = "AfterMethod"
                         /\ UNCHANGED << res, err >>
                    ELSE /\ IF ~IsTchar(b)
                               THEN /\ res' = "E"
                                    /\ err' = "Token"
                                    /\ pc' = "Fin"
                               ELSE /\ pc' = "TokenLoop"
                                    /\ UNCHANGED << res, err >>
                         /\ UNCHANGED << start, method >>
              /\ UNCHANGED << buf, cursor, b, n, path, version, code, 
                              hasreason, reason, hdrs, name, skp, k, acc, obs, 
                              ekind, hstart, tstart, tend, digits, inSize, 
                              inExt, travel, ret, ext >>

AfterMethod == /\ pc = "AfterMethod"
               /\ IF PM
                     THEN /\ ret' = "Uri"
                          /\ pc' = "Spaces"
                     ELSE /\ pc' = "Uri"
                          /\ ret' = ret
               /\ UNCHANGED << buf, start, cursor, b, res, err, n, method, 
                               path, version, code, hasreason, reason, hdrs, 
                               name, skp, k, acc, obs, ekind, hstart, tstart, 
                               tend, digits, inSize, inExt, travel, ext >>

Spaces == /\ pc = "Spaces"
          /\ IF cursor >= Len(buf)
                THEN /\ res' = "P"
                     /\ pc' = "Fin"
                     /\ UNCHANGED << start, cursor, travel >>
                ELSE /\ IF buf[cursor + 1] = SP
                           THEN /\ Assert(1 <= Rem(buf, cursor), 
                                          "Failure of assertion at line 84, column 22 of macro called at line 130, column 39.")
                                /\ cursor' = cursor + 1
                                /\ travel' = travel + 1
                                /\ pc' = "Spaces"
                                /\ start' = start
                           ELSE /\ start' = cursor
                                /\ pc' = "SpacesRet"
                                /\ UNCHANGED << cursor, travel >>
                     /\ res' = res
          /\ UNCHANGED << buf, b, err, n, method, path, version, code, 
                          hasreason, reason, hdrs, name, skp, k, acc, obs, 
                          ekind, hstart, tstart, tend, digits, inSize, inExt, 
                          ret, ext >>

SpacesRet == /\ pc = "SpacesRet"
             /\ IF ret = "Uri"
                   THEN /\ pc' = "Uri"
                   ELSE /\ IF ret = "Version"
                              THEN /\ pc' = "Version"
                              ELSE /\ IF ret = "Code"
                                         THEN /\ pc' = "Code"
                                         ELSE /\ pc' = "ReasonStart"
             /\ UNCHANGED << buf, start, cursor, b, res, err, n, method, path, 
                             version, code, hasreason, reason, hdrs, name, skp, 
                             k, acc, obs, ekind, hstart, tstart, tend, digits, 
                             inSize, inExt, travel, ret, ext >>

Uri == /\ pc = "Uri"
       /\ tstart' = cursor
       /\ LET c2 == ScanClass(buf, cursor, "uri") IN
            /\ travel' = travel + (c2 - cursor)
            /\ cursor' = c2
       /\ tend' = cursor'
       /\ pc' = "Uri2"
       /\ UNCHANGED << buf, start, b, res, err, n, method, path, version, code, 
                       hasreason, reason, hdrs, name, skp, k, acc, obs, ekind, 
                       hstart, digits, inSize, inExt, ret, ext >>

Uri2 == /\ pc = "Uri2"
        /\ IF cursor < Len(buf)
              THEN /\ b' = buf[cursor + 1]
                   /\ cursor' = cursor + 1
                   /\ travel' = travel + 1
                   /\ pc' = "Uri3"
                   /\ res' = res
              ELSE /\ res' = "P"
                   /\ pc' = "Fin"
                   /\ UNCHANGED << cursor, b, travel >>
        /\ UNCHANGED << buf, start, err, n, method, path, version, code, 
                        hasreason, reason, hdrs, name, skp, k, acc, obs, ekind, 
                        hstart, tstart, tend, digits, inSize, inExt, ret, ext >>

Uri3 == /\ pc = "Uri3"
        /\ IF b = SP
              THEN /\ IF tend = tstart
                         THEN /\ res' = "E"
                              /\ err' = "Token"
                              /\ pc' = "Fin"
                              /\ UNCHANGED << start, path >>
                         ELSE /\ IF Utf8Valid(SubSeq(buf, tstart + 1, tend))
                                    THEN /\ path' = <<start, cursor - 1>>
                                         /\ Assert(1 <= cursor - start, 
                                                   "Failure of assertion at line 85, column 25 of macro called at line 145, column 93.")
                                         /\ start' = cursor
                                         /\ pc' = "AfterUri"
                                         /\ UNCHANGED << res, err >>
                                    ELSE /\ res' = "E"
                                         /\ err' = "Token"
                                         /\ pc' = "Fin"
                                         /\ UNCHANGED << start, path >>
              ELSE /\ res' = "E"
                   /\ err' = "Token"
                   /\ pc' = "Fin"
                   /\ UNCHANGED << start, path >>
        /\ UNCHANGED << buf, cursor, b, n, method, version, code, hasreason, 
                        reason, hdrs, name, skp, k, acc, obs, ekind, hstart, 
                        tstart, tend, digits, inSize, inExt, travel, ret, ext >>

AfterUri == /\ pc = "AfterUri"
            /\ IF PM
                  THEN /\ ret' = "Version"
                       /\ pc' = "Spaces"
                  ELSE /\ ret' = "Newline"
                       /\ pc' = "Version"
            /\ UNCHANGED << buf, start, cursor, b, res, err, n, method, path, 
                            version, code, hasreason, reason, hdrs, name, skp, 
                            k, acc, obs, ekind, hstart, tstart, tend, digits, 
                            inSize, inExt, travel, ext >>

Version == /\ pc = "Version"
           /\ IF PKind = "req"
                 THEN /\ ret' = "Newline"
                 ELSE /\ ret' = "RespSpace"
           /\ IF Rem(buf, cursor) >= 8
                 THEN /\ LET eight == SubSeq(buf, cursor + 1, cursor + 8) IN
                           /\ Assert(8 <= Rem(buf, cursor), 
                                     "Failure of assertion at line 84, column 22 of macro called at line 155, column 11.")
                           /\ cursor' = cursor + 8
                           /\ travel' = travel + 8
                           /\ IF eight = H10
                                 THEN /\ version' = 0
                                      /\ pc' = "VerDone"
                                      /\ UNCHANGED << res, err >>
                                 ELSE /\ IF eight = H11
                                            THEN /\ version' = 1
                                                 /\ pc' = "VerDone"
                                                 /\ UNCHANGED << res, err >>
                                            ELSE /\ res' = "E"
                                                 /\ err' = "Version"
                                                 /\ pc' = "Fin"
                                                 /\ UNCHANGED version
                      /\ k' = k
                 ELSE /\ k' = 0
                      /\ pc' = "VerShort"
                      /\ UNCHANGED << cursor, res, err, version, travel >>
           /\ UNCHANGED << buf, start, b, n, method, path, code, hasreason, 
                           reason, hdrs, name, skp, acc, obs, ekind, hstart, 
                           tstart, tend, digits, inSize, inExt, ext >>

VerDone == /\ pc = "VerDone"
           /\ IF ret = "Newline"
                 THEN /\ pc' = "Newline"
                 ELSE /\ pc' = "RespSpace"
           /\ UNCHANGED << buf, start, cursor, b, res, err, n, method, path, 
                           version, code, hasreason, reason, hdrs, name, skp, 
                           k, acc, obs, ekind, hstart, tstart, tend, digits, 
                           inSize, inExt, travel, ret, ext >>

VerShort == /\ pc = "VerShort"
            /\ IF cursor < Len(buf)
                  THEN /\ b' = buf[cursor + 1]
                       /\ cursor' = cursor + 1
                       /\ travel' = travel + 1
                       /\ pc' = "VerShort2"
                       /\ res' = res
                  ELSE /\ res' = "P"
                       /\ pc' = "Fin"
                       /\ UNCHANGED << cursor, b, travel >>
            /\ UNCHANGED << buf, start, err, n, method, path, version, code, 
                            hasreason, reason, hdrs, name, skp, k, acc, obs, 
                            ekind, hstart, tstart, tend, digits, inSize, inExt, 
                            ret, ext >>

VerShort2 == /\ pc = "VerShort2"
             /\ IF b # VerLit[k + 1]
                   THEN /\ res' = "E"
                        /\ err' = "Version"
                        /\ pc' = "Fin"
                        /\ k' = k
                   ELSE /\ k' = k + 1
                        /\ IF k' = 7
                              THEN /\ res' = "P"
                                   /\ pc' = "Fin"
                              ELSE /\ pc' = "VerShort"
                                   /\ res' = res
                        /\ err' = err
             /\ UNCHANGED << buf, start, cursor, b, n, method, path, version, 
                             code, hasreason, reason, hdrs, name, skp, acc, 
                             obs, ekind, hstart, tstart, tend, digits, inSize, 
                             inExt, travel, ret, ext >>

Newline == /\ pc = "Newline"
           /\ IF cursor < Len(buf)
                 THEN /\ b' = buf[cursor + 1]
                      /\ cursor' = cursor + 1
                      /\ travel' = travel + 1
                      /\ pc' = "Newline2"
                      /\ res' = res
                 ELSE /\ res' = "P"
                      /\ pc' = "Fin"
                      /\ UNCHANGED << cursor, b, travel >>
           /\ UNCHANGED << buf, start, err, n, method, path, version, code, 
                           hasreason, reason, hdrs, name, skp, k, acc, obs, 
                           ekind, hstart, tstart, tend, digits, inSize, inExt, 
                           ret, ext >>

Newline2 == /\ pc = "Newline2"
            /\ IF b = CR
                  THEN /\ pc' = "NewlineLF"
                       /\ UNCHANGED << start, res, err >>
                  ELSE /\ IF b = LF
                             THEN /\ start' = cursor
                                  /\ pc' = "Headers"
                                  /\ UNCHANGED << res, err >>
                             ELSE /\ res' = "E"
                                  /\ err' = "NewLine"
                                  /\ pc' = "Fin"
                                  /\ start' = start
            /\ UNCHANGED << buf, cursor, b, n, method, path, version, code, 
                            hasreason, reason, hdrs, name, skp, k, acc, obs, 
                            ekind, hstart, tstart, tend, digits, inSize, inExt, 
                            travel, ret, ext >>

NewlineLF == /\ pc = "NewlineLF"
             /\ IF cursor < Len(buf)
                   THEN /\ b' = buf[cursor + 1]
                        /\ cursor' = cursor + 1
                        /\ travel' = travel + 1
                        /\ pc' = "NewlineLF2"
                        /\ res' = res
                   ELSE /\ res' = "P"
                        /\ pc' = "Fin"
                        /\ UNCHANGED << cursor, b, travel >>
             /\ UNCHANGED << buf, start, err, n, method, path, version, code, 
                             hasreason, reason, hdrs, name, skp, k, acc, obs, 
                             ekind, hstart, tstart, tend, digits, inSize, 
                             inExt, ret, ext >>

NewlineLF2 == /\ pc = "NewlineLF2"
              /\ IF b # LF
                    THEN /\ res' = "E"
                         /\ err' = "NewLine"
                         /\ pc' = "Fin"
                         /\ start' = start
                    ELSE /\ start' = cursor
                         /\ pc' = "Headers"
                         /\ UNCHANGED << res, err >>
              /\ UNCHANGED << buf, cursor, b, n, method, path, version, code, 
                              hasreason, reason, hdrs, name, skp, k, acc, obs, 
                              ekind, hstart, tstart, tend, digits, inSize, 
                              inExt, travel, ret, ext >>

RespSpace == /\ pc = "RespSpace"
             /\ IF cursor < Len(buf)
                   THEN /\ b' = buf[cursor + 1]
                        /\ cursor' = cursor + 1
                        /\ travel' = travel + 1
                        /\ pc' = "RespSpace2"
                        /\ res' = res
                   ELSE /\ res' = "P"
                        /\ pc' = "Fin"
                        /\ UNCHANGED << cursor, b, travel >>
             /\ UNCHANGED << buf, start, err, n, method, path, version, code, 
                             hasreason, reason, hdrs, name, skp, k, acc, obs, 
                             ekind, hstart, tstart, tend, digits, inSize, 
                             inExt, ret, ext >>

RespSpace2 == /\ pc = "RespSpace2"
              /\ IF b # SP
                    THEN /\ res' = "E"
                         /\ err' = "Version"
                         /\ pc' = "Fin"
                         /\ UNCHANGED << start, ret >>
                    ELSE /\ start' = cursor
                         /\ IF PM
                               THEN /\ ret' = "Code"
                                    /\ pc' = "Spaces"
                               ELSE /\ pc' = "Code"
                                    /\ ret' = ret
                         /\ UNCHANGED << res, err >>
              /\ UNCHANGED << buf, cursor, b, n, method, path, version, code, 
                              hasreason, reason, hdrs, name, skp, k, acc, obs, 
                              ekind, hstart, tstart, tend, digits, inSize, 
                              inExt, travel, ext >>

Code == /\ pc = "Code"
        /\ k' = 0
        /\ acc' = 0
        /\ pc' = "CodeDigit"
        /\ UNCHANGED << buf, start, cursor, b, res, err, n, method, path, 
                        version, code, hasreason, reason, hdrs, name, skp, obs, 
                        ekind, hstart, tstart, tend, digits, inSize, inExt, 
                        travel, ret, ext >>

CodeDigit == /\ pc = "CodeDigit"
             /\ IF cursor < Len(buf)
                   THEN /\ b' = buf[cursor + 1]
                        /\ cursor' = cursor + 1
                        /\ travel' = travel + 1
                        /\ pc' = "CodeDigit2"
                        /\ res' = res
                   ELSE /\ res' = "P"
                        /\ pc' = "Fin"
                        /\ UNCHANGED << cursor, b, travel >>
             /\ UNCHANGED << buf, start, err, n, method, path, version, code, 
                             hasreason, reason, hdrs, name, skp, k, acc, obs, 
                             ekind, hstart, tstart, tend, digits, inSize, 
                             inExt, ret, ext >>

CodeDigit2 == /\ pc = "CodeDigit2"
              /\ IF ~IsDigit(b)
                    THEN /\ res' = "E"
                         /\ err' = "Status"
                         /\ pc' = "Fin"
                         /\ UNCHANGED << code, k, acc >>
                    ELSE /\ acc' = acc * 10 + (b - 48)
                         /\ k' = k + 1
                         /\ IF k' < 3
                               THEN /\ pc' = "CodeDigit"
                                    /\ code' = code
                               ELSE /\ code' = acc'
                                    /\ pc' = "AfterCode"
                         /\ UNCHANGED << res, err >>
              /\ UNCHANGED << buf, start, cursor, b, n, method, path, version, 
                              hasreason, reason, hdrs, name, skp, obs, ekind, 
                              hstart, tstart, tend, digits, inSize, inExt, 
                              travel, ret, ext >>

AfterCode == /\ pc = "AfterCode"
             /\ IF cursor < Len(buf)
                   THEN /\ b' = buf[cursor + 1]
                        /\ cursor' = cursor + 1
                        /\ travel' = travel + 1
                        /\ pc' = "AfterCode2"
                        /\ res' = res
                   ELSE /\ res' = "P"
                        /\ pc' = "Fin"
                        /\ UNCHANGED << cursor, b, travel >>
             /\ UNCHANGED << buf, start, err, n, method, path, version, code, 
                             hasreason, reason, hdrs, name, skp, k, acc, obs, 
                             ekind, hstart, tstart, tend, digits, inSize, 
                             inExt, ret, ext >>

AfterCode2 == /\ pc = "AfterCode2"
              /\ IF b = SP
                    THEN /\ IF PM
                               THEN /\ ret' = "Reason"
                                    /\ pc' = "Spaces"
                               ELSE /\ pc' = "ReasonStart"
                                    /\ ret' = ret
                         /\ UNCHANGED << start, res, err, hasreason, reason >>
                    ELSE /\ IF b = CR
                               THEN /\ pc' = "AfterCodeLF"
                                    /\ UNCHANGED << start, res, err, hasreason, 
                                                    reason >>
                               ELSE /\ IF b = LF
                                          THEN /\ start' = cursor
                                               /\ hasreason' = TRUE
                                               /\ reason' = NoSpan
                                               /\ pc' = "Headers"
                                               /\ UNCHANGED << res, err >>
                                          ELSE /\ res' = "E"
                                               /\ err' = "Status"
                                               /\ pc' = "Fin"
                                               /\ UNCHANGED << start, 
                                                               hasreason, 
                                                               reason >>
                         /\ ret' = ret
              /\ UNCHANGED << buf, cursor, b, n, method, path, version, code, 
                              hdrs, name, skp, k, acc, obs, ekind, hstart, 
                              tstart, tend, digits, inSize, inExt, travel, ext >>

AfterCodeLF == /\ pc = "AfterCodeLF"
               /\ IF cursor < Len(buf)
                     THEN /\ b' = buf[cursor + 1]
                          /\ cursor' = cursor + 1
                          /\ travel' = travel + 1
                          /\ pc' = "AfterCodeLF2"
                          /\ res' = res
                     ELSE /\ res' = "P"
                          /\ pc' = "Fin"
                          /\ UNCHANGED << cursor, b, travel >>
               /\ UNCHANGED << buf, start, err, n, method, path, version, code, 
                               hasreason, reason, hdrs, name, skp, k, acc, obs, 
                               ekind, hstart, tstart, tend, digits, inSize, 
                               inExt, ret, ext >>

AfterCodeLF2 == /\ pc = "AfterCodeLF2"
                /\ IF b # LF
                      THEN /\ res' = "E"
                           /\ err' = "Status"
                           /\ pc' = "Fin"
                           /\ UNCHANGED << start, hasreason, reason >>
                      ELSE /\ start' = cursor
                           /\ hasreason' = TRUE
                           /\ reason' = NoSpan
                           /\ pc' = "Headers"
                           /\ UNCHANGED << res, err >>
                /\ UNCHANGED << buf, cursor, b, n, method, path, version, code, 
                                hdrs, name, skp, k, acc, obs, ekind, hstart, 
                                tstart, tend, digits, inSize, inExt, travel, 
                                ret, ext >>

ReasonStart == /\ pc = "ReasonStart"
               /\ start' = cursor
               /\ obs' = FALSE
               /\ pc' = "ReasonLoop"
               /\ UNCHANGED << buf, cursor, b, res, err, n, method, path, 
                               version, code, hasreason, reason, hdrs, name, 
                               skp, k, acc, ekind, hstart, tstart, tend, 
                               digits, inSize, inExt, travel, ret, ext >>

ReasonLoop == /\ pc = "ReasonLoop"
              /\ IF cursor < Len(buf)
                    THEN /\ b' = buf[cursor + 1]
                         /\ cursor' = cursor + 1
                         /\ travel' = travel + 1
                         /\ pc' = "ReasonLoop2"
                         /\ res' = res
                    ELSE /\ res' = "P"
                         /\ pc' = "Fin"
                         /\ UNCHANGED << cursor, b, travel >>
              /\ UNCHANGED << buf, start, err, n, method, path, version, code, 
                              hasreason, reason, hdrs, name, skp, k, acc, obs, 
                              ekind, hstart, tstart, tend, digits, inSize, 
                              inExt, ret, ext >>

ReasonLoop2 == /\ pc = "ReasonLoop2"
               /\ IF b = CR
                     THEN /\ pc' = "ReasonLF"
                          /\ UNCHANGED << start, res, err, hasreason, reason, 
                                          obs >>
                     ELSE /\ IF b = LF
                                THEN /\ hasreason' = TRUE
                                     /\ reason' = IF obs THEN NoSpan ELSE <<start, cursor - 1>>
                                     /\ Assert(1 <= cursor - start, 
                                               "Failure of assertion at line 85, column 25 of macro called at line 197, column 85.")
                                     /\ start' = cursor
                                     /\ pc' = "Headers"
                                     /\ UNCHANGED << res, err, obs >>
                                ELSE /\ IF ~IsReason(b)
                                           THEN /\ res' = "E"
                                                /\ err' = "Status"
                                                /\ pc' = "Fin"
                                                /\ obs' = obs
                                           ELSE /\ IF IsObs(b)
                                                      THEN /\ obs' = TRUE
                                                      ELSE /\ TRUE
                                                           /\ obs' = obs
                                                /\ pc' = "ReasonLoop"
                                                /\ UNCHANGED << res, err >>
                                     /\ UNCHANGED << start, hasreason, reason >>
               /\ UNCHANGED << buf, cursor, b, n, method, path, version, code, 
                               hdrs, name, skp, k, acc, ekind, hstart, tstart, 
                               tend, digits, inSize, inExt, travel, ret, ext >>

ReasonLF == /\ pc = "ReasonLF"
            /\ IF cursor < Len(buf)
                  THEN /\ b' = buf[cursor + 1]
                       /\ cursor' = cursor + 1
                       /\ travel' = travel + 1
                       /\ pc' = "ReasonLF2"
                       /\ res' = res
                  ELSE /\ res' = "P"
                       /\ pc' = "Fin"
                       /\ UNCHANGED << cursor, b, travel >>
            /\ UNCHANGED << buf, start, err, n, method, path, version, code, 
                            hasreason, reason, hdrs, name, skp, k, acc, obs, 
                            ekind, hstart, tstart, tend, digits, inSize, inExt, 
                            ret, ext >>

ReasonLF2 == /\ pc = "ReasonLF2"
             /\ IF b # LF
                   THEN /\ res' = "E"
                        /\ err' = "Status"
                        /\ pc' = "Fin"
                        /\ UNCHANGED << start, hasreason, reason >>
                   ELSE /\ hasreason' = TRUE
                        /\ reason' = IF obs THEN NoSpan ELSE <<start, cursor - 2>>
                        /\ Assert(2 <= cursor - start, 
                                  "Failure of assertion at line 85, column 25 of macro called at line 203, column 89.")
                        /\ start' = cursor
                        /\ pc' = "Headers"
                        /\ UNCHANGED << res, err >>
             /\ UNCHANGED << buf, cursor, b, n, method, path, version, code, 
                             hdrs, name, skp, k, acc, obs, ekind, hstart, 
                             tstart, tend, digits, inSize, inExt, travel, ret, 
                             ext >>

Headers == /\ pc = "Headers"
           /\ hstart' = cursor
           /\ pc' = "HLoop"
           /\ UNCHANGED << buf, start, cursor, b, res, err, n, method, path, 
                           version, code, hasreason, reason, hdrs, name, skp, 
                           k, acc, obs, ekind, tstart, tend, digits, inSize, 
                           inExt, travel, ret, ext >>

HLoop == /\ pc = "HLoop"
         /\ IF cursor < Len(buf)
               THEN /\ b' = buf[cursor + 1]
                    /\ cursor' = cursor + 1
                    /\ travel' = travel + 1
                    /\ pc' = "HLoop2"
                    /\ res' = res
               ELSE /\ res' = "P"
                    /\ pc' = "Fin"
                    /\ UNCHANGED << cursor, b, travel >>
         /\ UNCHANGED << buf, start, err, n, method, path, version, code, 
                         hasreason, reason, hdrs, name, skp, k, acc, obs, 
                         ekind, hstart, tstart, tend, digits, inSize, inExt, 
                         ret, ext >>

HLoop2 == /\ pc = "HLoop2"
          /\ IF b = CR
                THEN /\ pc' = "HEndLF"
                     /\ UNCHANGED << res, n, ekind >>
                ELSE /\ IF b = LF
                           THEN /\ res' = "C"
                                /\ n' = cursor
                                /\ pc' = "Fin"
                                /\ ekind' = ekind
                           ELSE /\ IF ~IsTchar(b)
                                      THEN /\ IF PHc.S /\ Len(hdrs) = 0 /\ IsWs(b)
                                                 THEN /\ pc' = "SkipWs"
                                                      /\ ekind' = ekind
                                                 ELSE /\ ekind' = "HeaderName"
                                                      /\ pc' = "InvalidCh"
                                      ELSE /\ pc' = "Name"
                                           /\ ekind' = ekind
                                /\ UNCHANGED << res, n >>
          /\ UNCHANGED << buf, start, cursor, b, err, method, path, version, 
                          code, hasreason, reason, hdrs, name, skp, k, acc, 
                          obs, hstart, tstart, tend, digits, inSize, inExt, 
                          travel, ret, ext >>

HEndLF == /\ pc = "HEndLF"
          /\ IF cursor < Len(buf)
                THEN /\ b' = buf[cursor + 1]
                     /\ cursor' = cursor + 1
                     /\ travel' = travel + 1
                     /\ pc' = "HEndLF2"
                     /\ res' = res
                ELSE /\ res' = "P"
                     /\ pc' = "Fin"
                     /\ UNCHANGED << cursor, b, travel >>
          /\ UNCHANGED << buf, start, err, n, method, path, version, code, 
                          hasreason, reason, hdrs, name, skp, k, acc, obs, 
                          ekind, hstart, tstart, tend, digits, inSize, inExt, 
                          ret, ext >>

HEndLF2 == /\ pc = "HEndLF2"
           /\ IF b # LF
                 THEN /\ res' = "E"
                      /\ err' = "NewLine"
                      /\ pc' = "Fin"
                      /\ n' = n
                 ELSE /\ res' = "C"
                      /\ n' = cursor
                      /\ pc' = "Fin"
                      /\ err' = err
           /\ UNCHANGED << buf, start, cursor, b, method, path, version, code, 
                           hasreason, reason, hdrs, name, skp, k, acc, obs, 
                           ekind, hstart, tstart, tend, digits, inSize, inExt, 
                           travel, ret, ext >>

SkipWs == /\ pc = "SkipWs"
          /\ IF cursor < Len(buf) /\ IsWs(buf[cursor + 1])
                THEN /\ Assert(1 <= Rem(buf, cursor), 
                               "Failure of assertion at line 84, column 22 of macro called at line 218, column 56.")
                     /\ cursor' = cursor + 1
                     /\ travel' = travel + 1
                     /\ pc' = "SkipWs"
                     /\ start' = start
                ELSE /\ start' = cursor
                     /\ pc' = "HLoop"
                     /\ UNCHANGED << cursor, travel >>
          /\ UNCHANGED << buf, b, res, err, n, method, path, version, code, 
                          hasreason, reason, hdrs, name, skp, k, acc, obs, 
                          ekind, hstart, tstart, tend, digits, inSize, inExt, 
                          ret, ext >>

Name == /\ pc = "Name"
        /\ LET c2 == ScanClass(buf, cursor, "name") IN
             /\ travel' = travel + (c2 - cursor)
             /\ cursor' = c2
        /\ pc' = "Name2"
        /\ UNCHANGED << buf, start, b, res, err, n, method, path, version, 
                        code, hasreason, reason, hdrs, name, skp, k, acc, obs, 
                        ekind, hstart, tstart, tend, digits, inSize, inExt, 
                        ret, ext >>

Name2 == /\ pc = "Name2"
         /\ IF cursor < Len(buf)
               THEN /\ b' = buf[cursor + 1]
                    /\ cursor' = cursor + 1
                    /\ travel' = travel + 1
                    /\ pc' = "Name3"
                    /\ res' = res
               ELSE /\ res' = "P"
                    /\ pc' = "Fin"
                    /\ UNCHANGED << cursor, b, travel >>
         /\ UNCHANGED << buf, start, err, n, method, path, version, code, 
                         hasreason, reason, hdrs, name, skp, k, acc, obs, 
                         ekind, hstart, tstart, tend, digits, inSize, inExt, 
                         ret, ext >>

Name3 == /\ pc = "Name3"
         /\ name' = <<start, cursor - 1>>
         /\ Assert(1 <= cursor - start, 
                   "Failure of assertion at line 85, column 25 of macro called at line 224, column 37.")
         /\ start' = cursor
         /\ IF b = COLON
               THEN /\ pc' = "OwsLoop"
                    /\ ekind' = ekind
               ELSE /\ IF PHc.A /\ IsWs(b)
                          THEN /\ pc' = "NameWs"
                               /\ ekind' = ekind
                          ELSE /\ ekind' = "HeaderName"
                               /\ pc' = "InvalidCh"
         /\ UNCHANGED << buf, cursor, b, res, err, n, method, path, version, 
                         code, hasreason, reason, hdrs, skp, k, acc, obs, 
                         hstart, tstart, tend, digits, inSize, inExt, travel, 
                         ret, ext >>

NameWs == /\ pc = "NameWs"
          /\ IF cursor < Len(buf)
                THEN /\ b' = buf[cursor + 1]
                     /\ cursor' = cursor + 1
                     /\ travel' = travel + 1
                     /\ pc' = "NameWs2"
                     /\ res' = res
                ELSE /\ res' = "P"
                     /\ pc' = "Fin"
                     /\ UNCHANGED << cursor, b, travel >>
          /\ UNCHANGED << buf, start, err, n, method, path, version, code, 
                          hasreason, reason, hdrs, name, skp, k, acc, obs, 
                          ekind, hstart, tstart, tend, digits, inSize, inExt, 
                          ret, ext >>

NameWs2 == /\ pc = "NameWs2"
           /\ IF b = COLON
                 THEN /\ start' = cursor
                      /\ pc' = "OwsLoop"
                      /\ ekind' = ekind
                 ELSE /\ IF IsWs(b)
                            THEN /\ pc' = "NameWs"
                                 /\ ekind' = ekind
                            ELSE /\ ekind' = "HeaderName"
                                 /\ pc' = "InvalidCh"
                      /\ start' = start
           /\ UNCHANGED << buf, cursor, b, res, err, n, method, path, version, 
                           code, hasreason, reason, hdrs, name, skp, k, acc, 
                           obs, hstart, tstart, tend, digits, inSize, inExt, 
                           travel, ret, ext >>

OwsLoop == /\ pc = "OwsLoop"
           /\ IF cursor < Len(buf)
                 THEN /\ b' = buf[cursor + 1]
                      /\ cursor' = cursor + 1
                      /\ travel' = travel + 1
                      /\ pc' = "OwsLoop2"
                      /\ res' = res
                 ELSE /\ res' = "P"
                      /\ pc' = "Fin"
                      /\ UNCHANGED << cursor, b, travel >>
           /\ UNCHANGED << buf, start, err, n, method, path, version, code, 
                           hasreason, reason, hdrs, name, skp, k, acc, obs, 
                           ekind, hstart, tstart, tend, digits, inSize, inExt, 
                           ret, ext >>

OwsLoop2 == /\ pc = "OwsLoop2"
            /\ IF IsWs(b)
                  THEN /\ start' = cursor
                       /\ pc' = "OwsLoop"
                       /\ ekind' = ekind
                  ELSE /\ IF IsValue(b)
                             THEN /\ pc' = "ValueLines"
                                  /\ ekind' = ekind
                             ELSE /\ IF b = CR
                                        THEN /\ pc' = "OwsLF"
                                             /\ ekind' = ekind
                                        ELSE /\ IF b = LF
                                                   THEN /\ pc' = "OwsFold"
                                                        /\ ekind' = ekind
                                                   ELSE /\ ekind' = "HeaderValue"
                                                        /\ pc' = "InvalidCh"
                       /\ start' = start
            /\ UNCHANGED << buf, cursor, b, res, err, n, method, path, version, 
                            code, hasreason, reason, hdrs, name, skp, k, acc, 
                            obs, hstart, tstart, tend, digits, inSize, inExt, 
                            travel, ret, ext >>

OwsLF == /\ pc = "OwsLF"
         /\ IF cursor < Len(buf)
               THEN /\ b' = buf[cursor + 1]
                    /\ cursor' = cursor + 1
                    /\ travel' = travel + 1
                    /\ pc' = "OwsLF2"
                    /\ res' = res
               ELSE /\ res' = "P"
                    /\ pc' = "Fin"
                    /\ UNCHANGED << cursor, b, travel >>
         /\ UNCHANGED << buf, start, err, n, method, path, version, code, 
                         hasreason, reason, hdrs, name, skp, k, acc, obs, 
                         ekind, hstart, tstart, tend, digits, inSize, inExt, 
                         ret, ext >>

OwsLF2 == /\ pc = "OwsLF2"
          /\ IF b # LF
                THEN /\ res' = "E"
                     /\ err' = "HeaderValue"
                     /\ pc' = "Fin"
                ELSE /\ pc' = "OwsFold"
                     /\ UNCHANGED << res, err >>
          /\ UNCHANGED << buf, start, cursor, b, n, method, path, version, 
                          code, hasreason, reason, hdrs, name, skp, k, acc, 
                          obs, ekind, hstart, tstart, tend, digits, inSize, 
                          inExt, travel, ret, ext >>

OwsFold == /\ pc = "OwsFold"
           /\ IF PHc.F
                 THEN /\ IF cursor >= Len(buf)
                            THEN /\ res' = "P"
                                 /\ pc' = "Fin"
                            ELSE /\ IF IsWs(buf[cursor + 1])
                                       THEN /\ pc' = "OwsLoop"
                                       ELSE /\ pc' = "EmptyValue"
                                 /\ res' = res
                 ELSE /\ pc' = "EmptyValue"
                      /\ res' = res
           /\ UNCHANGED << buf, start, cursor, b, err, n, method, path, 
                           version, code, hasreason, reason, hdrs, name, skp, 
                           k, acc, obs, ekind, hstart, tstart, tend, digits, 
                           inSize, inExt, travel, ret, ext >>

EmptyValue == /\ pc = "EmptyValue"
              /\ tstart' = start
              /\ tend' = start
              /\ start' = cursor
              /\ pc' = "StoreHdr"
              /\ UNCHANGED << buf, cursor, b, res, err, n, method, path, 
                              version, code, hasreason, reason, hdrs, name, 
                              skp, k, acc, obs, ekind, hstart, digits, inSize, 
                              inExt, travel, ret, ext >>

ValueLines == /\ pc = "ValueLines"
              /\ LET c2 == ScanClass(buf, cursor, "val") IN
                   /\ travel' = travel + (c2 - cursor)
                   /\ cursor' = c2
              /\ pc' = "Value2"
              /\ UNCHANGED << buf, start, b, res, err, n, method, path, 
                              version, code, hasreason, reason, hdrs, name, 
                              skp, k, acc, obs, ekind, hstart, tstart, tend, 
                              digits, inSize, inExt, ret, ext >>

Value2 == /\ pc = "Value2"
          /\ IF cursor < Len(buf)
                THEN /\ b' = buf[cursor + 1]
                     /\ cursor' = cursor + 1
                     /\ travel' = travel + 1
                     /\ pc' = "Value3"
                     /\ res' = res
                ELSE /\ res' = "P"
                     /\ pc' = "Fin"
                     /\ UNCHANGED << cursor, b, travel >>
          /\ UNCHANGED << buf, start, err, n, method, path, version, code, 
                          hasreason, reason, hdrs, name, skp, k, acc, obs, 
                          ekind, hstart, tstart, tend, digits, inSize, inExt, 
                          ret, ext >>

Value3 == /\ pc = "Value3"
          /\ IF b = CR
                THEN /\ pc' = "ValueLF"
                     /\ UNCHANGED << skp, ekind >>
                ELSE /\ IF b = LF
                           THEN /\ skp' = 1
                                /\ pc' = "ValueFold"
                                /\ ekind' = ekind
                           ELSE /\ ekind' = "HeaderValue"
                                /\ pc' = "InvalidCh"
                                /\ skp' = skp
          /\ UNCHANGED << buf, start, cursor, b, res, err, n, method, path, 
                          version, code, hasreason, reason, hdrs, name, k, acc, 
                          obs, hstart, tstart, tend, digits, inSize, inExt, 
                          travel, ret, ext >>

ValueLF == /\ pc = "ValueLF"
           /\ IF cursor < Len(buf)
                 THEN /\ b' = buf[cursor + 1]
                      /\ cursor' = cursor + 1
                      /\ travel' = travel + 1
                      /\ pc' = "ValueLF2"
                      /\ res' = res
                 ELSE /\ res' = "P"
                      /\ pc' = "Fin"
                      /\ UNCHANGED << cursor, b, travel >>
           /\ UNCHANGED << buf, start, err, n, method, path, version, code, 
                           hasreason, reason, hdrs, name, skp, k, acc, obs, 
                           ekind, hstart, tstart, tend, digits, inSize, inExt, 
                           ret, ext >>

ValueLF2 == /\ pc = "ValueLF2"
            /\ IF b # LF
                  THEN /\ res' = "E"
                       /\ err' = "HeaderValue"
                       /\ pc' = "Fin"
                       /\ skp' = skp
                  ELSE /\ skp' = 2
                       /\ pc' = "ValueFold"
                       /\ UNCHANGED << res, err >>
            /\ UNCHANGED << buf, start, cursor, b, n, method, path, version, 
                            code, hasreason, reason, hdrs, name, k, acc, obs, 
                            ekind, hstart, tstart, tend, digits, inSize, inExt, 
                            travel, ret, ext >>

ValueFold == /\ pc = "ValueFold"
             /\ IF PHc.F
                   THEN /\ IF cursor >= Len(buf)
                              THEN /\ res' = "P"
                                   /\ pc' = "Fin"
                              ELSE /\ IF IsWs(buf[cursor + 1])
                                         THEN /\ pc' = "ValueLines"
                                         ELSE /\ pc' = "ValueSlice"
                                   /\ res' = res
                   ELSE /\ pc' = "ValueSlice"
                        /\ res' = res
             /\ UNCHANGED << buf, start, cursor, b, err, n, method, path, 
                             version, code, hasreason, reason, hdrs, name, skp, 
                             k, acc, obs, ekind, hstart, tstart, tend, digits, 
                             inSize, inExt, travel, ret, ext >>

ValueSlice == /\ pc = "ValueSlice"
              /\ tstart' = start
              /\ tend' = LastVis(buf, start, cursor - skp)
              /\ Assert(skp <= cursor - start, 
                        "Failure of assertion at line 85, column 25 of macro called at line 264, column 66.")
              /\ start' = cursor
              /\ pc' = "StoreHdr"
              /\ UNCHANGED << buf, cursor, b, res, err, n, method, path, 
                              version, code, hasreason, reason, hdrs, name, 
                              skp, k, acc, obs, ekind, hstart, digits, inSize, 
                              inExt, travel, ret, ext >>

StoreHdr == /\ pc = "StoreHdr"
            /\ IF Len(hdrs) >= PCap
                  THEN /\ res' = "E"
                       /\ err' = "TooManyHeaders"
                       /\ pc' = "Fin"
                       /\ hdrs' = hdrs
                  ELSE /\ hdrs' = Append(hdrs, <<name, <<tstart, tend>> >>)
                       /\ pc' = "HLoop"
                       /\ UNCHANGED << res, err >>
            /\ UNCHANGED << buf, start, cursor, b, n, method, path, version, 
                            code, hasreason, reason, name, skp, k, acc, obs, 
                            ekind, hstart, tstart, tend, digits, inSize, inExt, 
                            travel, ret, ext >>

InvalidCh == /\ pc = "InvalidCh"
             /\ IF ~PHc.I
                   THEN /\ res' = "E"
                        /\ err' = ekind
                        /\ pc' = "Fin"
                   ELSE /\ pc' = "InvLoop"
                        /\ UNCHANGED << res, err >>
             /\ UNCHANGED << buf, start, cursor, b, n, method, path, version, 
                             code, hasreason, reason, hdrs, name, skp, k, acc, 
                             obs, ekind, hstart, tstart, tend, digits, inSize, 
                             inExt, travel, ret, ext >>

InvLoop == /\ pc = "InvLoop"
           /\ IF b = CR
                 THEN /\ pc' = "InvLF"
                      /\ UNCHANGED << start, res, err >>
                 ELSE /\ IF b = LF
                            THEN /\ start' = cursor
                                 /\ pc' = "HLoop"
                                 /\ UNCHANGED << res, err >>
                            ELSE /\ IF b = NUL
                                       THEN /\ res' = "E"
                                            /\ err' = ekind
                                            /\ pc' = "Fin"
                                       ELSE /\ pc' = "InvNext"
                                            /\ UNCHANGED << res, err >>
                                 /\ start' = start
           /\ UNCHANGED << buf, cursor, b, n, method, path, version, code, 
                           hasreason, reason, hdrs, name, skp, k, acc, obs, 
                           ekind, hstart, tstart, tend, digits, inSize, inExt, 
                           travel, ret, ext >>

InvNext == /\ pc = "InvNext"
           /\ IF cursor < Len(buf)
                 THEN /\ b' = buf[cursor + 1]
                      /\ cursor' = cursor + 1
                      /\ travel' = travel + 1
                      /\ pc' = "InvNext2"
                      /\ res' = res
                 ELSE /\ res' = "P"
                      /\ pc' = "Fin"
                      /\ UNCHANGED << cursor, b, travel >>
           /\ UNCHANGED << buf, start, err, n, method, path, version, code, 
                           hasreason, reason, hdrs, name, skp, k, acc, obs, 
                           ekind, hstart, tstart, tend, digits, inSize, inExt, 
                           ret, ext >>

InvNext2 == /\ pc = "InvNext2"
            /\ pc' = "InvLoop"
            /\ UNCHANGED << buf, start, cursor, b, res, err, n, method, path, 
                            version, code, hasreason, reason, hdrs, name, skp, 
                            k, acc, obs, ekind, hstart, tstart, tend, digits, 
                            inSize, inExt, travel, ret, ext >>

InvLF == /\ pc = "InvLF"
         /\ IF cursor < Len(buf)
               THEN /\ b' = buf[cursor + 1]
                    /\ cursor' = cursor + 1
                    /\ travel' = travel + 1
                    /\ pc' = "InvLF2"
                    /\ res' = res
               ELSE /\ res' = "P"
                    /\ pc' = "Fin"
                    /\ UNCHANGED << cursor, b, travel >>
         /\ UNCHANGED << buf, start, err, n, method, path, version, code, 
                         hasreason, reason, hdrs, name, skp, k, acc, obs, 
                         ekind, hstart, tstart, tend, digits, inSize, inExt, 
                         ret, ext >>

InvLF2 == /\ pc = "InvLF2"
          /\ IF b # LF
                THEN /\ res' = "E"
                     /\ err' = ekind
                     /\ pc' = "Fin"
                     /\ start' = start
                ELSE /\ start' = cursor
                     /\ pc' = "HLoop"
                     /\ UNCHANGED << res, err >>
          /\ UNCHANGED << buf, cursor, b, n, method, path, version, code, 
                          hasreason, reason, hdrs, name, skp, k, acc, obs, 
                          ekind, hstart, tstart, tend, digits, inSize, inExt, 
                          travel, ret, ext >>

Chunk == /\ pc = "Chunk"
         /\ k' = 0
         /\ inSize' = TRUE
         /\ inExt' = FALSE
         /\ pc' = "ChunkLoop"
         /\ UNCHANGED << buf, start, cursor, b, res, err, n, method, path, 
                         version, code, hasreason, reason, hdrs, name, skp, 
                         acc, obs, ekind, hstart, tstart, tend, digits, travel, 
                         ret, ext >>

ChunkLoop == /\ pc = "ChunkLoop"
             /\ IF cursor < Len(buf)
                   THEN /\ b' = buf[cursor + 1]
                        /\ cursor' = cursor + 1
                        /\ travel' = travel + 1
                        /\ pc' = "ChunkLoop2"
                        /\ res' = res
                   ELSE /\ res' = "P"
                        /\ pc' = "Fin"
                        /\ UNCHANGED << cursor, b, travel >>
             /\ UNCHANGED << buf, start, err, n, method, path, version, code, 
                             hasreason, reason, hdrs, name, skp, k, acc, obs, 
                             ekind, hstart, tstart, tend, digits, inSize, 
                             inExt, ret, ext >>

ChunkLoop2 == /\ pc = "ChunkLoop2"
              /\ IF k = 0 /\ ~IsHex(b)
                    THEN /\ res' = "E"
                         /\ err' = "InvalidChunkSize"
                         /\ pc' = "Fin"
                         /\ UNCHANGED << k, digits, inSize, inExt >>
                    ELSE /\ IF IsHex(b) /\ inSize
                               THEN /\ IF k > 15
                                          THEN /\ res' = "E"
                                               /\ err' = "InvalidChunkSize"
                                               /\ pc' = "Fin"
                                               /\ UNCHANGED << k, digits >>
                                          ELSE /\ k' = k + 1
                                               /\ digits' = Append(digits, HexVal(b))
                                               /\ pc' = "ChunkLoop"
                                               /\ UNCHANGED << res, err >>
                                    /\ UNCHANGED << inSize, inExt >>
                               ELSE /\ IF b = CR
                                          THEN /\ pc' = "ChunkLF"
                                               /\ UNCHANGED << res, err, 
                                                               inSize, inExt >>
                                          ELSE /\ IF b = SEMI /\ ~inExt
                                                     THEN /\ inExt' = TRUE
                                                          /\ inSize' = FALSE
                                                          /\ pc' = "ChunkLoop"
                                                          /\ UNCHANGED << res, 
                                                                          err >>
                                                     ELSE /\ IF IsWs(b) /\ ~inExt /\ ~inSize
                                                                THEN /\ pc' = "ChunkLoop"
                                                                     /\ UNCHANGED << res, 
                                                                                     err, 
                                                                                     inSize >>
                                                                ELSE /\ IF IsWs(b) /\ inSize
                                                                           THEN /\ inSize' = FALSE
                                                                                /\ pc' = "ChunkLoop"
                                                                                /\ UNCHANGED << res, 
                                                                                                err >>
                                                                           ELSE /\ IF inExt
                                                                                      THEN /\ pc' = "ChunkLoop"
                                                                                           /\ UNCHANGED << res, 
                                                                                                           err >>
                                                                                      ELSE /\ res' = "E"
                                                                                           /\ err' = "InvalidChunkSize"
                                                                                           /\ pc' = "Fin"
                                                                                /\ UNCHANGED inSize
                                                          /\ inExt' = inExt
                                    /\ UNCHANGED << k, digits >>
              /\ UNCHANGED << buf, start, cursor, b, n, method, path, version, 
                              code, hasreason, reason, hdrs, name, skp, acc, 
                              obs, ekind, hstart, tstart, tend, travel, ret, 
                              ext >>

ChunkLF == /\ pc = "ChunkLF"
           /\ IF cursor < Len(buf)
                 THEN /\ b' = buf[cursor + 1]
                      /\ cursor' = cursor + 1
                      /\ travel' = travel + 1
                      /\ pc' = "ChunkLF2"
                      /\ res' = res
                 ELSE /\ res' = "P"
                      /\ pc' = "Fin"
                      /\ UNCHANGED << cursor, b, travel >>
           /\ UNCHANGED << buf, start, err, n, method, path, version, code, 
                           hasreason, reason, hdrs, name, skp, k, acc, obs, 
                           ekind, hstart, tstart, tend, digits, inSize, inExt, 
                           ret, ext >>

ChunkLF2 == /\ pc = "ChunkLF2"
            /\ IF b = LF
                  THEN /\ res' = "C"
                       /\ n' = cursor
                       /\ pc' = "Fin"
                       /\ err' = err
                  ELSE /\ res' = "E"
                       /\ err' = "InvalidChunkSize"
                       /\ pc' = "Fin"
                       /\ n' = n
            /\ UNCHANGED << buf, start, cursor, b, method, path, version, code, 
                            hasreason, reason, hdrs, name, skp, k, acc, obs, 
                            ekind, hstart, tstart, tend, digits, inSize, inExt, 
                            travel, ret, ext >>

Fin == /\ pc = "Fin"
       /\ TRUE
       /\ pc' = "Done"
       /\ UNCHANGED << buf, start, cursor, b, res, err, n, method, path, 
                       version, code, hasreason, reason, hdrs, name, skp, k, 
                       acc, obs, ekind, hstart, tstart, tend, digits, inSize, 
                       inExt, travel, ret, ext >>

(* Allow infinite stuttering to prevent deadlock on termination. *)
Terminating == pc = "Done" /\ UNCHANGED vars

Next == Build \/ Entry \/ SkipEmpty \/ SkipEmptyLF \/ SkipEmptyLF2
           \/ Method \/ MethodFast \/ Token0 \/ Token0b \/ TokenLoop
           \/ TokenLoop2 \/ AfterMethod \/ Spaces \/ SpacesRet \/ Uri \/ Uri2
           \/ Uri3 \/ AfterUri \/ Version \/ VerDone \/ VerShort \/ VerShort2
           \/ Newline \/ Newline2 \/ NewlineLF \/ NewlineLF2 \/ RespSpace
           \/ RespSpace2 \/ Code \/ CodeDigit \/ CodeDigit2 \/ AfterCode
           \/ AfterCode2 \/ AfterCodeLF \/ AfterCodeLF2 \/ ReasonStart
           \/ ReasonLoop \/ ReasonLoop2 \/ ReasonLF \/ ReasonLF2 \/ Headers
           \/ HLoop \/ HLoop2 \/ HEndLF \/ HEndLF2 \/ SkipWs \/ Name \/ Name2
           \/ Name3 \/ NameWs \/ NameWs2 \/ OwsLoop \/ OwsLoop2 \/ OwsLF
           \/ OwsLF2 \/ OwsFold \/ EmptyValue \/ ValueLines \/ Value2 \/ Value3
           \/ ValueLF \/ ValueLF2 \/ ValueFold \/ ValueSlice \/ StoreHdr
           \/ InvalidCh \/ InvLoop \/ InvNext \/ InvNext2 \/ InvLF \/ InvLF2
           \/ Chunk \/ ChunkLoop \/ ChunkLoop2 \/ ChunkLF \/ ChunkLF2 \/ Fin
           \/ Terminating

Spec == /\ Init /\ [][Next]_vars
        /\ WF_vars(Next)

Termination == <>(pc = "Done")

\* END TRANSLATION
=============================================================================
