------------------------------ MODULE TraceOps ------------------------------
(***************************************************************************)
(* Validates cursor-operation logs recorded from the real parser (hook H1  *)
(* in src/iter.rs, H4 in the SIMD modules) against the contract of         *)
(* Cursor.tla.  Every hook logs the operation, its argument and the cursor *)
(* state at the time of the request; a trace is accepted iff every logged  *)
(* state equals the state the contract computes and every operation's      *)
(* precondition holds.  So an `advance` past `end`, a `peek_ahead(n)` with  *)
(* n > remaining, a `slice_skip` larger than the committed distance or a   *)
(* 16/32-byte load with fewer bytes remaining is rejected even in release  *)
(* builds (where the crate's debug_assert!s are compiled out) and even     *)
(* when the over-read would land in mapped memory.                         *)
(***************************************************************************)
EXTENDS Cursor, Sequences, TLC, Json, IOUtils

Rec == ndJsonDeserialize(IOEnv.TRACE)
VARIABLES l, live
tvars == <<len, start, cursor, end, lastEnd, l, live>>

TInit == l = 1 /\ live = FALSE /\ len = 0 /\ start = 0 /\ cursor = 0 /\ end = 0 /\ lastEnd = 0
IsEvent(e) == l <= Len(Rec) /\ Rec[l].ev = e /\ l' = l + 1
Same == Rec[l].s = start /\ Rec[l].c = cursor /\ Rec[l].e = end

TCall == /\ IsEvent("call") /\ len' = Rec[l].len /\ live' = FALSE
         /\ start' = 0 /\ cursor' = 0 /\ end' = 0 /\ lastEnd' = 0
TRet == IsEvent("ret") /\ ~Rec[l].panicked /\ live' = FALSE /\ UNCHANGED cvars
IsOp(code) == IsEvent("op") /\ Rec[l].code = code
TNew == IsOp(0) /\ New(Rec[l].s, Rec[l].e) /\ Rec[l].arg = Rec[l].e - Rec[l].s /\ live' = TRUE
TPeek == IsOp(1) /\ live /\ Same /\ Peek /\ UNCHANGED live
TPeekAhead == IsOp(2) /\ live /\ Same /\ PeekAhead(Rec[l].arg) /\ UNCHANGED live
TPeekN == IsOp(3) /\ live /\ Same /\ PeekN(Rec[l].arg) /\ UNCHANGED live
TAdvance == IsOp(4) /\ live /\ Same /\ Advance(Rec[l].arg) /\ UNCHANGED live
TSlice == IsOp(5) /\ live /\ Same /\ HandOut(0) /\ UNCHANGED live
TSliceSkip == IsOp(6) /\ live /\ Same /\ HandOut(Rec[l].arg) /\ UNCHANGED live
TCommit == IsOp(7) /\ live /\ Same /\ Commit /\ UNCHANGED live
TSetCursor == IsOp(8) /\ live /\ Same /\ SetCursor(Rec[l].arg) /\ Rec[l].arg >= cursor /\ UNCHANGED live
TNextNone == IsOp(9) /\ live /\ Same /\ UNCHANGED cvars /\ UNCHANGED live
\* k times next() with a byte available (each = the check `cursor < end` and advance(1))
TNexts == IsEvent("nexts") /\ live /\ Same /\ Advance(Rec[l].n) /\ UNCHANGED live
TLoad == IsOp(11) /\ live /\ Rec[l].c = cursor /\ Rec[l].e = end /\ Load(Rec[l].arg) /\ UNCHANGED live

TNext == TCall \/ TRet \/ TNew \/ TPeek \/ TPeekAhead \/ TPeekN \/ TAdvance \/ TSlice \/ TSliceSkip
         \/ TCommit \/ TSetCursor \/ TNextNone \/ TNexts \/ TLoad
TSpec == TInit /\ [][TNext]_tvars

TraceInv == live => Bounds /\ SliceBounds
Accepted ==
  IF TLCGet("stats").diameter - 1 = Len(Rec) THEN TRUE
  ELSE /\ PrintT(<<"REJECT", TLCGet("stats").diameter, Len(Rec)>>)
       /\ FALSE
=============================================================================
