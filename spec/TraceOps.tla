------------------------------ MODULE TraceOps ------------------------------
(***************************************************************************)
(* Validates cursor-operation logs recorded from the real parser (hook H1  *)
(* in src/iter.rs, H4 in the SIMD modules) against the contract of         *)
(* Cursor.tla.  Every hook logs the operation, its argument and the state  *)
(* of the cursor VALUE it was called on.  A call may use several cursor    *)
(* values (a sub-cursor, a scratch cursor for a look-ahead): the trace     *)
(* specification keeps every cursor created during the call (`curs`), an   *)
(* event belongs to a cursor whose state equals the logged one, and the    *)
(* trace is accepted iff every event finds such a cursor and satisfies     *)
(* the operation's precondition on it.  So an `advance` past `end`, a       *)
(* `peek_ahead(n)` with n > remaining, a `slice_skip` larger than the       *)
(* committed distance, a 16/32-byte load with fewer bytes remaining, or a  *)
(* cursor whose fields changed behind the methods' back, is rejected even  *)
(* in release builds (where the crate's debug_assert!s are compiled out)   *)
(* and even when the over-read would land in mapped memory.                *)
(***************************************************************************)
EXTENDS Cursor, Sequences, TLC, Json, IOUtils

Rec == ndJsonDeserialize(IOEnv.TRACE)
VARIABLES l, curs
tvars == <<len, start, cursor, end, lastEnd, l, curs>>
\* (the variables of Cursor.tla other than `len` are not used here: the cursors live in `curs`)
Idle == UNCHANGED <<start, cursor, end, lastEnd>>

TInit == l = 1 /\ curs = <<>> /\ len = 0 /\ start = 0 /\ cursor = 0 /\ end = 0 /\ lastEnd = 0
IsEvent(e) == l <= Len(Rec) /\ Rec[l].ev = e /\ l' = l + 1
Match(k) == Rec[l].s = k.start /\ Rec[l].c = k.cursor /\ Rec[l].e = k.end
\* the event is an operation on SOME live cursor in the logged state, allowed by `ok`, with effect `do`
On(ok(_), do(_)) == \E i \in 1..Len(curs) :
                      /\ Match(curs[i]) /\ ok(curs[i])
                      /\ curs' = [curs EXCEPT ![i] = do(curs[i])]
Id(k) == k
Yes(k) == TRUE

TCall == IsEvent("call") /\ len' = Rec[l].len /\ curs' = <<>> /\ Idle
TRet == IsEvent("ret") /\ ~Rec[l].panicked /\ curs' = <<>> /\ UNCHANGED len /\ Idle
IsOp(code) == IsEvent("op") /\ Rec[l].code = code /\ UNCHANGED len /\ Idle
TNew == /\ IsOp(0) /\ OkNew(len, Rec[l].s, Rec[l].e) /\ Rec[l].arg = Rec[l].e - Rec[l].s
        /\ curs' = Append(curs, DoNew(Rec[l].s, Rec[l].e))
TPeek == IsOp(1) /\ On(Yes, Id)
TPeekAhead == IsOp(2) /\ LET ok(k) == OkPeekAhead(k, Rec[l].arg) IN On(ok, Id)
TPeekN == IsOp(3) /\ LET ok(k) == OkPeekN(k, Rec[l].arg) IN On(ok, Id)
TAdvance == IsOp(4) /\ LET ok(k) == OkAdvance(k, Rec[l].arg)
                           do(k) == DoAdvance(k, Rec[l].arg) IN On(ok, do)
TSlice == IsOp(5) /\ LET ok(k) == OkHandOut(k, 0)
                         do(k) == DoHandOut(k, 0) IN On(ok, do)
TSliceSkip == IsOp(6) /\ LET ok(k) == OkHandOut(k, Rec[l].arg)
                             do(k) == DoHandOut(k, Rec[l].arg) IN On(ok, do)
TCommit == IsOp(7) /\ On(Yes, DoCommit)
TSetCursor == IsOp(8) /\ LET ok(k) == OkSetCursor(k, Rec[l].arg) /\ Rec[l].arg >= k.cursor
                             do(k) == DoSetCursor(k, Rec[l].arg) IN On(ok, do)
TNextNone == IsOp(9) /\ On(Yes, Id)
\* k times next() with a byte available (each = the check `cursor < end` and advance(1))
TNexts == /\ IsEvent("nexts") /\ UNCHANGED len /\ Idle
          /\ LET ok(k) == OkAdvance(k, Rec[l].n)
                 do(k) == DoAdvance(k, Rec[l].n) IN On(ok, do)
\* block loads log the read position and the end only
TLoad == /\ IsOp(11)
         /\ \E i \in 1..Len(curs) : /\ Rec[l].c = curs[i].cursor /\ Rec[l].e = curs[i].end
                                     /\ OkLoad(curs[i], Rec[l].arg)
         /\ UNCHANGED curs

TNext == TCall \/ TRet \/ TNew \/ TPeek \/ TPeekAhead \/ TPeekN \/ TAdvance \/ TSlice \/ TSliceSkip
         \/ TCommit \/ TSetCursor \/ TNextNone \/ TNexts \/ TLoad
TSpec == TInit /\ [][TNext]_tvars

TraceInv == \A i \in 1..Len(curs) : KBounds(curs[i], len) /\ KSliceBounds(curs[i])
Accepted ==
  IF TLCGet("stats").diameter - 1 = Len(Rec) THEN TRUE
  ELSE /\ PrintT(<<"REJECT", TLCGet("stats").diameter, Len(Rec)>>)
       /\ FALSE
=============================================================================
