------------------------------- MODULE Runtime -------------------------------
(***************************************************************************)
(* src/simd/runtime.rs: the lazily initialised backend cell raced by the   *)
(* first callers (property C13: "when several threads make their first     *)
(* parse call concurrently").  Each call does                              *)
(*     f := load(cell); if f = 0 { f := detect(); store(cell, f) };        *)
(*     dispatch on f                                                       *)
(* on one relaxed atomic.  A single location, so interleaving semantics is *)
(* sound.  Invariant: every dispatch uses exactly the backend the CPU      *)
(* detection yields - never 0 ("not detected"), never a backend the CPU    *)
(* lacks - whatever the interleaving.                                      *)
(***************************************************************************)
EXTENDS Naturals, FiniteSets
CONSTANTS Threads, Calls, Cpu       \* Cpu \in 1..3: 1 AVX2, 2 SSE4.2, 3 scalar
VARIABLES cell, pc, f, done, dispatched
rvars == <<cell, pc, f, done, dispatched>>

Detect == Cpu
RInit == /\ cell = 0 /\ pc = [t \in Threads |-> "load"] /\ f = [t \in Threads |-> 0]
         /\ done = [t \in Threads |-> 0] /\ dispatched = {}
Load(t) == /\ pc[t] = "load" /\ done[t] < Calls
           /\ f' = [f EXCEPT ![t] = cell]
           /\ pc' = [pc EXCEPT ![t] = IF cell = 0 THEN "detect" ELSE "dispatch"]
           /\ UNCHANGED <<cell, done, dispatched>>
DetectStep(t) == /\ pc[t] = "detect" /\ f' = [f EXCEPT ![t] = Detect]
                 /\ pc' = [pc EXCEPT ![t] = "store"] /\ UNCHANGED <<cell, done, dispatched>>
Store(t) == /\ pc[t] = "store" /\ cell' = f[t]
            /\ pc' = [pc EXCEPT ![t] = "dispatch"] /\ UNCHANGED <<f, done, dispatched>>
Dispatch(t) == /\ pc[t] = "dispatch" /\ dispatched' = dispatched \cup {f[t]}
               /\ done' = [done EXCEPT ![t] = @ + 1]
               /\ pc' = [pc EXCEPT ![t] = "load"] /\ UNCHANGED <<cell, f>>
RNext == \E t \in Threads : Load(t) \/ DetectStep(t) \/ Store(t) \/ Dispatch(t)
RSpec == RInit /\ [][RNext]_rvars

DispatchIsDetected == dispatched \subseteq {Detect}
CellIsZeroOrDetected == cell \in {0, Detect}
AtDispatch == \A t \in Threads : pc[t] = "dispatch" => f[t] = Detect
=============================================================================
