------------------------------ MODULE MCSession ------------------------------
(***************************************************************************)
(* All histories up to Depth calls over a small pool of buffers and option *)
(* sets, on a re-used value `used`; after every history a probe call is    *)
(* compared with the same call on a FRESH value of equal capacity.         *)
(***************************************************************************)
EXTENDS Session, TLC
CONSTANTS Depth, PoolKind
VARIABLES used, depth, lastObs, lastFresh
svars == <<used, depth, lastObs, lastFresh>>

S(str) == str
ReqPool == << <<71,69,84,32,47,32,72,84,84,80,47,49,46,49,13,10,13,10>>,                      \* complete, 0 headers
              <<71,69,84,32,47,97,32,72,84,84,80,47,49,46,48,10,97,58,98,10,10>>,            \* complete, 1 header
              <<80,79,83,84,32,47,32,72,84,84,80,47,49,46,49,10,97,58,98,10,99,58,100,10,10>>,\* complete, 2 headers
              <<71,69,84,32,47,120>>,                                                        \* partial in target
              <<71,69,84,32,47,120,32,72,84,84,80,47,49,46,49,10,97,58>>,                    \* partial in header
              <<71,69,84,32,47,120,32,72,84,84,80,47,50>>,                                   \* Err(Version)
              <<71,69,84,32,47,32,72,84,84,80,47,49,46,49,10,97,58,98,10,99,58,100,10,101,58,10,10>>, \* 3 headers
              <<>> >>
RespPool == << <<72,84,84,80,47,49,46,49,32,50,48,48,32,79,75,13,10,13,10>>,
               <<72,84,84,80,47,49,46,48,32,52,48,52,10,97,58,98,10,10>>,
               <<72,84,84,80,47,49,46,49,32,50,48,48,32,79,75,10,97,58,98,10,99,58,100,10,10>>,
               <<72,84,84,80,47,49,46,49,32,50>>,
               <<72,84,84,80,47,49,46,49,32,50,48,48,32,79,75,10,97,58,32>>,
               <<72,84,84,80,47,49,46,49,32,50,48,120>>,
               <<72,84,84,80,47,49,46,49,32,50,48,48,10,97,58,98,10,32,99,10,10>>,
               <<>> >>
Pool == IF PoolKind = "req" THEN ReqPool ELSE RespPool
Cfgs == IF PoolKind = "req" THEN {0, 1 + 16 + 32} ELSE {0, 2 + 4 + 8 + 16 + 64}
Caps == {0, 1, 2, 4}

Init == \E c \in Caps : used = NewValue(PoolKind, c) /\ depth = 0 /\ lastObs = <<>> /\ lastFresh = <<>>
Call(i, cb, uninit, ucap) ==
  LET cfg == CfgOfBits(cb)
      cap == IF uninit THEN ucap ELSE used.exposed
      r == Result(used, cfg, cap, Pool[i])
      v2 == After(used, r, uninit, i)
      fresh == NewValue(PoolKind, cap)
      rf == Result(fresh, cfg, cap, Pool[i])
      vf == After(fresh, rf, uninit, i)
  IN /\ used' = v2
     /\ lastObs' = Observable(v2, r)
     /\ lastFresh' = Observable(vf, rf)
Next == /\ depth < Depth /\ depth' = depth + 1
        /\ \E i \in 1..Len(Pool), cb \in Cfgs :
             \/ Call(i, cb, FALSE, 0)
             \/ \E u \in {0, 2} : Call(i, cb, TRUE, u)
Spec == Init /\ [][Next]_svars

\* C18: status, and all fields and headers of a Complete result, as on a fresh value
HistoryIndependent ==
  lastObs # <<>> =>
    /\ lastObs.st = lastFresh.st /\ lastObs.n = lastFresh.n /\ lastObs.err = lastFresh.err
    /\ lastObs.fields = lastFresh.fields /\ lastObs.hdrs = lastFresh.hdrs
\* C17: exposed length after the call
ExposedLaw ==
  lastObs # <<>> => (lastObs.st = "C" => lastObs.exposed = Len(lastObs.hdrs))
=============================================================================
