------------------------------- MODULE Props --------------------------------
(***************************************************************************)
(* The listed properties as predicates over an automaton state s and the   *)
(* bytes buf fed so far (C02 .. C11, C14), written declaratively from the  *)
(* property statements.  MCHead.tla binds them to TLC invariants / action  *)
(* properties; the trace specifications evaluate the same predicates on    *)
(* results recorded from the real parser.                                  *)
(***************************************************************************)
EXTENDS Ref

\* ------------------------------------------------------------------ C02
Final(s) == s.st # "P"
AbsorbingStep(s, t) == Final(s) => t = s
FieldsMonotoneStep(s, t) ==
  /\ s.method # NoSpan => t.method = s.method
  /\ s.path # NoSpan => t.path = s.path
  /\ s.version # NoVal => t.version = s.version
  /\ s.code # NoVal => t.code = s.code
  /\ s.hasreason => t.hasreason /\ t.reason = s.reason
HeadersAppendOnlyStep(s, t) ==
  /\ Len(s.hdrs) <= Len(t.hdrs)
  /\ \A i \in 1..Len(s.hdrs) : t.hdrs[i] = s.hdrs[i]
\* a field is only ever reported once its delimiter has been consumed
ReportedFieldsArePast(s) ==
  /\ s.method[2] <= s.pos /\ s.path[2] <= s.pos /\ s.reason[2] <= s.pos
  /\ \A i \in 1..Len(s.hdrs) : s.hdrs[i][2][2] <= s.pos /\ s.hdrs[i][1][2] < s.pos

\* C18 (design level): a Complete result never leaves a start-line field to whatever an
\* earlier call stored in the value: every field has been assigned by this run
CompleteDetermined(s) ==
  s.st = "C" =>
    /\ s.kind = "req" => s.method # NoSpan /\ s.path # NoSpan /\ s.version # NoVal
    /\ s.kind = "resp" => s.version # NoVal /\ s.code # NoVal /\ s.hasreason

\* ------------------------------------------------------------------ C03
\* 1-based position just past the start line: after leading empty lines, the first LF
RECURSIVE AfterLead(_, _)
AfterLead(buf, p) ==
  IF p > Len(buf) THEN p
  ELSE IF buf[p] = LF THEN AfterLead(buf, p + 1)
  ELSE IF buf[p] = CR /\ p < Len(buf) /\ buf[p + 1] = LF THEN AfterLead(buf, p + 2)
  ELSE p
StartLineEnd(kind, buf) ==          \* 0 if the start line is not finished
  IF kind = "hdrs" THEN 1
  ELSE LET a == AfterLead(buf, 1)
           lfs == {i \in a..Len(buf) : buf[i] = LF}
       IN IF lfs = {} THEN 0 ELSE (CHOOSE i \in lfs : \A j \in lfs : i <= j) + 1
\* a line = maximal run up to and including an LF; it is empty if it is LF or CR LF,
\* or (only for positions <= wsUpTo: lines before the first stored header, option S)
\* SP/HTAB* followed by LF or CR LF
LineStart(buf, from, i) ==          \* start of the line that ends with the LF at i
  LET prev == {j \in from..(i - 1) : buf[j] = LF} IN
  IF prev = {} THEN from ELSE (CHOOSE j \in prev : \A k \in prev : k <= j) + 1
EmptyLineAt(buf, from, i, wsUpTo) ==
  LET ls == LineStart(buf, from, i)
      body == SubSeq(buf, ls, i - 1)
      core == IF Len(body) > 0 /\ body[Len(body)] = CR THEN SubSeq(body, 1, Len(body) - 1) ELSE body
  IN /\ buf[i] = LF
     /\ \/ core = <<>>
        \/ ls <= wsUpTo /\ \A k \in 1..Len(core) : IsWs(core[k])
FirstEmptyLineEnd(buf, from, wsUpTo) ==   \* 0 if there is none
  LET c == {i \in from..Len(buf) : EmptyLineAt(buf, from, i, wsUpTo)} IN
  IF c = {} THEN 0 ELSE CHOOSE i \in c : \A j \in c : i <= j
\* where ws-led lines stop counting as empty: the line of the first header that was
\* stored or is in progress (0 = option off)
WsLimit(s) ==
  IF ~s.hc.S THEN 0
  ELSE IF s.hdrs # <<>> THEN s.hdrs[1][1][1]
  ELSE IF s.ph \in {"NAME", "NAME_WS", "OWS", "OWS_CR", "FOLD_E", "VALUE", "VAL_CR", "FOLD_V"} THEN
       (IF s.ph = "NAME" THEN s.t0 ELSE s.name[1])
  ELSE Inf
Framing(s, buf) ==
  IF s.kind = "chunk" THEN
       /\ s.st = "C" => s.n <= Len(buf) /\ s.n >= 2 /\ buf[s.n] = LF /\ buf[s.n - 1] = CR
                        /\ \A i \in 2..(s.n - 1) : ~(buf[i] = LF /\ buf[i - 1] = CR)
       /\ s.st = "P" => \A i \in 2..Len(buf) : ~(buf[i] = LF /\ buf[i - 1] = CR)
  ELSE LET sl == StartLineEnd(s.kind, buf) IN
       /\ s.st = "C" => /\ sl > 0 /\ s.n <= Len(buf)
                        /\ s.n = FirstEmptyLineEnd(buf, sl, WsLimit(s))
       /\ s.st = "P" => sl = 0 \/ FirstEmptyLineEnd(buf, sl, WsLimit(s)) = 0

\* ------------------------------------------------------------------ C04
FieldSeq(s) ==
  (IF s.kind = "req" THEN <<s.method, s.path>> ELSE IF s.kind = "resp" THEN <<s.reason>> ELSE <<>>)
  \o [i \in 1..(2 * Len(s.hdrs)) |-> s.hdrs[(i + 1) \div 2][IF i % 2 = 1 THEN 1 ELSE 2]]
NonEmpty(sp) == sp[1] < sp[2]
Spans(s, buf) ==
  LET f == FieldSeq(s) IN
  /\ \A i \in 1..Len(f) : f[i][1] <= f[i][2] /\ f[i][2] <= Len(buf)
  /\ s.st = "C" =>
       /\ \A i \in 1..Len(f) : f[i][2] <= s.n
       /\ \A i, j \in 1..Len(f) : (i < j /\ NonEmpty(f[i]) /\ NonEmpty(f[j])) => f[i][2] <= f[j][1]

\* ------------------------------------------------------------------ C05
Bytes(buf, sp) == SubSeq(buf, sp[1] + 1, sp[2])
AllIn(seq, P(_)) == \A i \in 1..Len(seq) : P(seq[i])
IsReasonText(b) == IsWs(b) \/ IsVchar(b)
\* value bytes, or (only with folding) a line break immediately followed by SP / HTAB
ValueOk(v, fold) ==
  \A i \in 1..Len(v) :
     \/ IsValue(v[i])
     \/ fold /\ v[i] = LF /\ i < Len(v) /\ IsWs(v[i + 1])
     \/ fold /\ v[i] = CR /\ i + 1 < Len(v) /\ v[i + 1] = LF /\ IsWs(v[i + 2])
Hygiene(s, buf) ==
  s.st = "C" /\ s.kind # "chunk" =>
    /\ s.kind = "req" => /\ NonEmpty(s.method) /\ AllIn(Bytes(buf, s.method), IsTchar)
                         /\ NonEmpty(s.path) /\ AllIn(Bytes(buf, s.path), IsTarget)
                         /\ Utf8Valid(Bytes(buf, s.path))
                         /\ s.version \in {0, 1}
    /\ s.kind = "resp" => /\ s.version \in {0, 1} /\ s.code \in 0..999
                          /\ AllIn(Bytes(buf, s.reason), IsReasonText)
    /\ \A i \in 1..Len(s.hdrs) :
         LET nm == Bytes(buf, s.hdrs[i][1])
             v == Bytes(buf, s.hdrs[i][2])
         IN /\ nm # <<>> /\ AllIn(nm, IsTchar)
            /\ ValueOk(v, s.hc.F)
            /\ v # <<>> => ~IsWs(v[1]) /\ ~IsWs(v[Len(v)])
    /\ \A i \in 1..s.n : buf[i] # NUL /\ (buf[i] = CR => i < s.n /\ buf[i + 1] = LF)

\* ------------------------------------------------------------------ C06-C09, C10, C14
RefOf(s, buf) ==
  CASE s.kind = "req" -> RefReq(buf, s.M, s.hc, s.cap)
    [] s.kind = "resp" -> RefResp(buf, s.M, s.hc, s.cap)
    [] s.kind = "hdrs" -> RefHdrs(buf, 1, s.hc, s.cap, <<>>)
    [] s.kind = "chunk" -> RefChunk(buf)
Language(s, buf) == Agrees(s, RefOf(s, buf))
=============================================================================
