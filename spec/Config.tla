------------------------------- MODULE Config -------------------------------
(***************************************************************************)
(* `ParserConfig` as a state machine: the value a caller builds with the   *)
(* seven setters before handing it to parse_request / parse_response.      *)
(* The option set is the number `bits` (bit k = option k in the order of   *)
(* Head!CfgBits: Mq Mr A F S Iq Ir); a second value `saved` models         *)
(* `clone()` (ParserConfig is Clone + Default).  The laws the 128-config   *)
(* properties (C14, C15) silently rely on are stated as action properties: *)
(* a setter changes its own option and nothing else, setting is idempotent *)
(* and last-write-wins, a clone is independent of its origin.              *)
(* TraceConfig.tla validates recorded builder histories of the real type   *)
(* against this machine, observing the options through the four getters    *)
(* and through their effect on probe messages (computed by Head).          *)
(***************************************************************************)
EXTENDS Naturals
NOpts == 7
Opts == 0..(NOpts - 1)
VARIABLES bits, saved
cvars == <<bits, saved>>

RECURSIVE Pow2(_)
Pow2(k) == IF k = 0 THEN 1 ELSE 2 * Pow2(k - 1)
BitOf(n, k) == (n \div Pow2(k)) % 2
SetBit(n, k, v) == n - BitOf(n, k) * Pow2(k) + (IF v THEN Pow2(k) ELSE 0)

CInit == bits = 0 /\ saved = 0
Default == bits' = 0 /\ UNCHANGED saved
Set(k, v) == bits' = SetBit(bits, k, v) /\ UNCHANGED saved
Clone == saved' = bits /\ UNCHANGED bits
Swap == bits' = saved /\ saved' = bits
CNext == Default \/ Clone \/ Swap \/ \E k \in Opts, v \in BOOLEAN : Set(k, v)
CSpec == CInit /\ [][CNext]_cvars

TypeOK == bits \in 0..(Pow2(NOpts) - 1) /\ saved \in 0..(Pow2(NOpts) - 1)
\* a step changes at most one option of the value being built, unless it replaces the whole value
OneOptionPerStep ==
  [][\/ bits' = 0 \/ bits' = saved
     \/ \E k \in Opts : \A j \in Opts \ {k} : BitOf(bits', j) = BitOf(bits, j)]_cvars
\* the clone does not follow its origin
CloneIndependent == [][saved' # saved => saved' = bits]_cvars
\* every one of the 128 option sets is reachable (the quantifier "forall 128 configs" is not vacuous)
AllReachableWitness(n) == bits # n
=============================================================================
