------------------------------- MODULE Client --------------------------------
(***************************************************************************)
(* Property C04, static half: "the types tie every returned slice to the   *)
(* buffer's lifetime and the headers slice to the caller's array, so no    *)
(* safe program can keep a field after its buffer, or a headers slice      *)
(* after its array, is gone or mutated".                                   *)
(*                                                                         *)
(* Client PROGRAMS are modelled as histories of operations on four         *)
(* objects - the buffer, the header array, the parsed value (Request /     *)
(* Response / the slice parse_headers returns) and one extracted field.    *)
(* Every history starts: allocate buffer; allocate array; create value;    *)
(* parse via an entry point.  Then any well-formed sequence of:            *)
(*   Extract   take a field (&str / &[u8]) out of the value                *)
(*   UseFld    read the extracted field                                    *)
(*   UseVal    read the value's headers (names and values)                 *)
(*   DropBuf / MutBuf      free / overwrite the buffer                     *)
(*   DropArr / MutArr / ReadArr   free / overwrite / read the array itself *)
(* The module classifies each history:                                     *)
(*   "dangling"    a read reaches bytes of a buffer already freed or       *)
(*                 overwritten, or the array is touched while the value    *)
(*                 that holds it mutably is used later -> the compiler     *)
(*                 MUST reject the program;                                *)
(*   "disciplined" the buffer outlives every use of the field, the value   *)
(*                 and the array; the array is not touched while the value *)
(*                 is in use -> the compiler MUST accept it;               *)
(*   "grey"        neither; no expectation.                                *)
(* TLC enumerates all histories up to MaxOps; each is rendered by a fixed  *)
(* template into a Rust program and judged by rustc against the working    *)
(* tree's crate.                                                           *)
(***************************************************************************)
EXTENDS Naturals, Sequences, TLC, Json
CONSTANTS MaxOps, Entries, Fields
VARIABLES ops, entry, field
cvars == <<ops, entry, field>>

OpNames == {"Extract", "UseFld", "UseVal", "DropBuf", "MutBuf", "DropArr", "MutArr", "ReadArr"}
Has(seq, o) == \E i \in 1..Len(seq) : seq[i] = o
\* positions
Later(seq, i, S) == \E j \in (i + 1)..Len(seq) : seq[j] \in S

\* well-formed: nothing uses an object after it was moved out (that would be E0382, a
\* different rule); a field is used only after it was extracted; one extraction
WellFormed(seq) ==
  /\ \A i \in 1..Len(seq) :
       /\ seq[i] \in {"DropBuf"} => ~Later(seq, i, {"DropBuf", "MutBuf"})
       /\ seq[i] \in {"DropArr"} => ~Later(seq, i, {"DropArr", "MutArr", "ReadArr"})
       /\ seq[i] = "UseFld" => \E j \in 1..(i - 1) : seq[j] = "Extract"
       /\ seq[i] = "Extract" => ~Later(seq, i, {"Extract"})

\* operations whose type mentions the buffer's lifetime (they keep the buffer borrowed)
\* (moving the array with an explicit drop is a use of its element type, too)
BufUsers == {"Extract", "UseFld", "UseVal", "ReadArr", "MutArr", "DropArr"}
\* operations that dereference bytes of the buffer
BufReaders == {"UseFld", "UseVal", "ReadArr"}
\* operations through the value (which holds the array mutably)
ValUsers == {"Extract", "UseVal"}

\* UseFld reads buffer bytes only if the field was extracted; it was (well-formedness)
Dangling(seq) ==
  \/ \E i \in 1..Len(seq) : seq[i] \in {"DropBuf", "MutBuf"} /\ Later(seq, i, BufReaders)
  \/ \E i \in 1..Len(seq) : seq[i] \in {"DropArr", "MutArr", "ReadArr"} /\ Later(seq, i, ValUsers)
Disciplined(seq) ==
  /\ \A i \in 1..Len(seq) : seq[i] \in {"DropBuf", "MutBuf"} => ~Later(seq, i, BufUsers)
  /\ \A i \in 1..Len(seq) : seq[i] \in {"DropArr", "MutArr", "ReadArr"} => ~Later(seq, i, ValUsers)
Class(seq) == IF Dangling(seq) THEN "dangling" ELSE IF Disciplined(seq) THEN "disciplined" ELSE "grey"

Init == ops = <<>> /\ entry \in Entries /\ field \in Fields
Next == /\ Len(ops) < MaxOps
        /\ \E o \in OpNames : ops' = Append(ops, o) /\ WellFormed(ops')
        /\ UNCHANGED <<entry, field>>
Spec == Init /\ [][Next]_cvars

\* the two classes exclude each other, and a dangling history stays dangling when extended
Exclusive == ~(Dangling(ops) /\ Disciplined(ops))
Monotone == [][Dangling(ops) => Dangling(ops')]_cvars
Emit == PrintT(ToJson([ops |-> ops, entry |-> entry, field |-> field, class |-> Class(ops)]))
=============================================================================
