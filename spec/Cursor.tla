------------------------------- MODULE Cursor -------------------------------
(***************************************************************************)
(* Contract of the cursor type of src/iter.rs (`Bytes`): three offsets     *)
(* into the caller's buffer and one action per method, each with its       *)
(* documented `unsafe` precondition as enabling condition.  It is a        *)
(* MONITOR: it constrains single operations, not control flow, so any      *)
(* refactoring that keeps using the cursor type correctly still conforms.  *)
(*                                                                         *)
(*   0 <= start <= cursor <= end <= len      (C01: nothing outside buffer) *)
(*   cursor and start never move backwards   (C20: strictly forward)       *)
(*   handed-out slices [start, cursor-k) are increasing and disjoint (C04) *)
(***************************************************************************)
EXTENDS Integers

VARIABLES
  \* @type: Int;
  len,        \* length of the caller's buffer
  \* @type: Int;
  start,      \* committed position
  \* @type: Int;
  cursor,     \* read position
  \* @type: Int;
  end,        \* end of the region this cursor may read
  \* @type: Int;
  lastEnd     \* end of the last slice handed out
cvars == <<len, start, cursor, end, lastEnd>>

Remaining == end - cursor

CInit == len \in Nat /\ start = 0 /\ cursor = 0 /\ end = len /\ lastEnd = 0

\* ---- the contract on cursor VALUES (records): precondition `Ok..` and effect `Do..` ----
\* (TraceOps follows several live cursors of one call with these; the actions below are the
\* same contract on the one cursor held in the variables)
Cur == [start |-> start, cursor |-> cursor, end |-> end, lastEnd |-> lastEnd]
Apply(k) == /\ start' = k.start /\ cursor' = k.cursor /\ end' = k.end /\ lastEnd' = k.lastEnd
            /\ UNCHANGED len
Rem(k) == k.end - k.cursor
OkNew(n, a, b) == 0 <= a /\ a <= b /\ b <= n
DoNew(a, b) == [start |-> a, cursor |-> a, end |-> b, lastEnd |-> a]
OkPeekAhead(k, n) == n >= 0 /\ n <= Rem(k)                 \* unsafe: n <= len()
OkPeekN(k, n) == n >= 0                                    \* safe: returns None if n > len()
OkAdvance(k, n) == n >= 0 /\ n <= Rem(k)                   \* unsafe: must stay <= end
DoAdvance(k, n) == [k EXCEPT !.cursor = @ + n]
OkHandOut(k, n) == n >= 0 /\ n <= k.cursor - k.start       \* unsafe: skip <= advanced distance
DoHandOut(k, n) == [k EXCEPT !.lastEnd = k.cursor - n]
DoCommit(k) == [k EXCEPT !.start = k.cursor]
OkSetCursor(k, p) == k.start <= p /\ p <= k.end            \* unsafe: start <= ptr <= end
DoSetCursor(k, p) == [k EXCEPT !.cursor = p]
OkLoad(k, w) == w >= 0 /\ w <= Rem(k)                      \* a w-byte block load at the cursor
KBounds(k, n) == 0 <= k.start /\ k.start <= k.cursor /\ k.cursor <= k.end /\ k.end <= n
KSliceBounds(k) == 0 <= k.lastEnd /\ k.lastEnd <= k.end

\* a (sub)cursor over [a, b) of the same buffer
New(a, b) == OkNew(len, a, b) /\ Apply(DoNew(a, b))
Peek == UNCHANGED cvars                                   \* checks cursor < end itself
PeekAhead(n) == OkPeekAhead(Cur, n) /\ UNCHANGED cvars
PeekN(n) == OkPeekN(Cur, n) /\ UNCHANGED cvars
Advance(n) == OkAdvance(Cur, n) /\ Apply(DoAdvance(Cur, n))
NextByte == Apply(IF cursor < end THEN DoAdvance(Cur, 1) ELSE Cur)
\* slice() / slice_skip(k) hand out [start, cursor-k) and then commit; the code does it
\* in two steps (the hand-out, then `commit()`), and so does the contract
HandOut(k) == OkHandOut(Cur, k) /\ Apply(DoHandOut(Cur, k))
Commit == Apply(DoCommit(Cur))
Slice == HandOut(0) \cdot Commit
SliceSkip(k) == HandOut(k) \cdot Commit
SetCursor(p) == OkSetCursor(Cur, p) /\ Apply(DoSetCursor(Cur, p))
\* a w-byte SIMD block load at the cursor
Load(w) == OkLoad(Cur, w) /\ UNCHANGED cvars

CNext == \/ \E a, b \in 0..len : New(a, b)
         \/ Peek \/ NextByte \/ Commit
         \/ \E n \in 0..(len + 1) : PeekAhead(n) \/ PeekN(n) \/ Advance(n) \/ HandOut(n)
                                     \/ SetCursor(n) \/ Load(n)
CSpec == CInit /\ [][CNext]_cvars

TypeOK == len \in Int /\ start \in Int /\ cursor \in Int /\ end \in Int /\ lastEnd \in Int
Bounds == KBounds(Cur, len)
SliceBounds == KSliceBounds(Cur)
IndInv == TypeOK /\ Bounds /\ SliceBounds /\ len >= 0
\* forward-only, except for an explicit SetCursor (which the parser does not use)
Forward == [][start' >= start \/ \E a, b \in 0..len : New(a, b)]_cvars
=============================================================================
