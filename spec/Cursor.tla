------------------------------- MODULE Cursor -------------------------------
(***************************************************************************)
(* Contract of the cursor type of src/iter.rs (`Bytes`): three offsets     *)
(* into the caller's buffer and one action per method, each with its       *)
(* documented `unsafe` precondition as enabling condition.  It is a        *)
(* MONITOR: it constrains single operations, not control flow, so any      *)
(* refactoring that keeps using the cursor type correctly still conforms.  *)
(*                                                                         *)
(*   0 <= start <= cursor <= end <= len      (C01: nothing outside buffer) *)
(*   cursor and start never move backwards   (C20: strictly forward)       *)
(*   handed-out slices [start, cursor-k) are increasing and disjoint (C04) *)
(***************************************************************************)
EXTENDS Integers

VARIABLES
  \* @type: Int;
  len,        \* length of the caller's buffer
  \* @type: Int;
  start,      \* committed position
  \* @type: Int;
  cursor,     \* read position
  \* @type: Int;
  end,        \* end of the region this cursor may read
  \* @type: Int;
  lastEnd     \* end of the last slice handed out
cvars == <<len, start, cursor, end, lastEnd>>

Remaining == end - cursor

CInit == len \in Nat /\ start = 0 /\ cursor = 0 /\ end = len /\ lastEnd = 0

\* a (sub)cursor over [a, b) of the same buffer
New(a, b) == /\ 0 <= a /\ a <= b /\ b <= len
             /\ start' = a /\ cursor' = a /\ end' = b /\ lastEnd' = a /\ UNCHANGED len
Peek == UNCHANGED cvars                                   \* checks cursor < end itself
PeekAhead(n) == n >= 0 /\ n <= Remaining /\ UNCHANGED cvars       \* unsafe: n <= len()
PeekN(n) == n >= 0 /\ UNCHANGED cvars                     \* safe: returns None if n > len()
Advance(n) == /\ n >= 0 /\ n <= Remaining                 \* unsafe: must stay <= end
              /\ cursor' = cursor + n /\ UNCHANGED <<len, start, end, lastEnd>>
NextByte == /\ IF cursor < end THEN cursor' = cursor + 1 ELSE cursor' = cursor
            /\ UNCHANGED <<len, start, end, lastEnd>>
\* slice() / slice_skip(k) hand out [start, cursor-k) and then commit; the code does it
\* in two steps (the hand-out, then `commit()`), and so does the contract
HandOut(k) == /\ k >= 0 /\ k <= cursor - start             \* unsafe: skip <= advanced distance
              /\ lastEnd' = cursor - k /\ UNCHANGED <<len, start, cursor, end>>
Commit == start' = cursor /\ UNCHANGED <<len, cursor, end, lastEnd>>
Slice == HandOut(0) \cdot Commit
SliceSkip(k) == HandOut(k) \cdot Commit
SetCursor(p) == /\ start <= p /\ p <= end                  \* unsafe: start <= ptr <= end
                /\ cursor' = p /\ UNCHANGED <<len, start, end, lastEnd>>
\* a w-byte SIMD block load at the cursor
Load(w) == w >= 0 /\ w <= Remaining /\ UNCHANGED cvars

CNext == \/ \E a, b \in 0..len : New(a, b)
         \/ Peek \/ NextByte \/ Commit
         \/ \E n \in 0..(len + 1) : PeekAhead(n) \/ PeekN(n) \/ Advance(n) \/ HandOut(n)
                                     \/ SetCursor(n) \/ Load(n)
CSpec == CInit /\ [][CNext]_cvars

TypeOK == len \in Int /\ start \in Int /\ cursor \in Int /\ end \in Int /\ lastEnd \in Int
Bounds == 0 <= start /\ start <= cursor /\ cursor <= end /\ end <= len
SliceBounds == 0 <= lastEnd /\ lastEnd <= end
IndInv == TypeOK /\ Bounds /\ SliceBounds /\ len >= 0
\* forward-only, except for an explicit SetCursor (which the parser does not use)
Forward == [][start' >= start \/ \E a, b \in 0..len : New(a, b)]_cvars
=============================================================================
