------------------------------ MODULE Classes -------------------------------
(* Prints the byte-class table of Bytes.tla for the Rust-side hygiene checks, *)
(* so that no class is defined twice.  bit 1 tchar, 2 target, 4 value,        *)
(* 8 reason-as-text (HTAB/SP/VCHAR), 16 whitespace, 32 hex digit, 64 digit.   *)
EXTENDS Bytes, TLC, Json
Bit(x) == IF x THEN 1 ELSE 0
Mask(b) == Bit(IsTchar(b)) + 2 * Bit(IsTarget(b)) + 4 * Bit(IsValue(b))
           + 8 * Bit(IsWs(b) \/ IsVchar(b)) + 16 * Bit(IsWs(b)) + 32 * Bit(IsHex(b))
           + 64 * Bit(IsDigit(b))
ASSUME PrintT(ToJson([i \in 1..256 |-> Mask(i - 1)]))
VARIABLE x
Spec == x = 0 /\ [][x' = x]_x
=============================================================================
