------------------------------ MODULE ApaRuntime ------------------------------
(***************************************************************************)
(* Runtime.tla (the lazily initialised backend cell of src/simd/runtime.rs)*)
(* for an UNBOUNDED number of calls per thread and any detected backend:   *)
(* `IndInv` is an inductive invariant of the same four steps (load,        *)
(* detect, store, dispatch), checked symbolically with Apalache            *)
(*   base:  apalache-mc check --init=RInit   --inv=IndInv --length=0       *)
(*   step:  apalache-mc check --init=IndInit --inv=IndInv --length=1       *)
(* and it implies that no dispatch ever uses 0 ("not detected") or a       *)
(* backend other than the detected one (`DispatchIsDetected`).  TLC checks *)
(* Runtime.tla for 3 threads x 2 calls; this removes the bound on calls.   *)
(* Four threads are enough: the invariant is a conjunction of per-thread   *)
(* facts and one fact about the cell, so any violation involves one        *)
(* thread's step and the cell.                                             *)
(***************************************************************************)
EXTENDS Integers

Threads == {"t1", "t2", "t3", "t4"}
PCs == {"load", "detect", "store", "dispatch"}

VARIABLES
  \* @type: Int;
  cpu,
  \* @type: Int;
  cell,
  \* @type: Str -> Str;
  pc,
  \* @type: Str -> Int;
  f,
  \* @type: Str -> Int;
  done,
  \* @type: Set(Int);
  dispatched

RInit == /\ cpu \in 1..3 /\ cell = 0
         /\ pc = [t \in Threads |-> "load"] /\ f = [t \in Threads |-> 0]
         /\ done = [t \in Threads |-> 0] /\ dispatched = {}

Load(t) == /\ pc[t] = "load"
           /\ f' = [f EXCEPT ![t] = cell]
           /\ pc' = [pc EXCEPT ![t] = IF cell = 0 THEN "detect" ELSE "dispatch"]
           /\ UNCHANGED <<cpu, cell, done, dispatched>>
DetectStep(t) == /\ pc[t] = "detect" /\ f' = [f EXCEPT ![t] = cpu]
                 /\ pc' = [pc EXCEPT ![t] = "store"] /\ UNCHANGED <<cpu, cell, done, dispatched>>
Store(t) == /\ pc[t] = "store" /\ cell' = f[t]
            /\ pc' = [pc EXCEPT ![t] = "dispatch"] /\ UNCHANGED <<cpu, f, done, dispatched>>
Dispatch(t) == /\ pc[t] = "dispatch" /\ dispatched' = dispatched \union {f[t]}
               /\ done' = [done EXCEPT ![t] = @ + 1]
               /\ pc' = [pc EXCEPT ![t] = "load"] /\ UNCHANGED <<cpu, cell, f>>
Next == \E t \in Threads : Load(t) \/ DetectStep(t) \/ Store(t) \/ Dispatch(t)

\* negative control: a load that forgets the "not yet detected" test is NOT inductive
LoadNoTest(t) == /\ pc[t] = "load" /\ f' = [f EXCEPT ![t] = cell]
                 /\ pc' = [pc EXCEPT ![t] = "dispatch"] /\ UNCHANGED <<cpu, cell, done, dispatched>>
NextBroken == \E t \in Threads : LoadNoTest(t) \/ DetectStep(t) \/ Store(t) \/ Dispatch(t)

IndInv == /\ cpu \in 1..3
          /\ cell \in {0, cpu}
          /\ dispatched \subseteq {cpu}
          /\ \A t \in Threads :
               /\ pc[t] \in PCs
               /\ done[t] >= 0
               /\ pc[t] \in {"store", "dispatch"} => f[t] = cpu
               /\ f[t] \in {0, cpu}

IndInit == /\ cpu \in 1..3 /\ cell \in 0..3
           /\ pc \in [Threads -> PCs] /\ f \in [Threads -> 0..3]
           /\ done \in [Threads -> Nat]
           /\ dispatched \in SUBSET (0..3)
           /\ IndInv

DispatchIsDetected == dispatched \subseteq {cpu} /\ ~(0 \in dispatched)
=============================================================================
