-------------------------------- MODULE Gen ---------------------------------
(***************************************************************************)
(* Stage B of the spec->implementation binding: behaviour generators.      *)
(* Every generator starts from the resume contexts found by Skel (one      *)
(* shortest witness per abstract automaton state) and extends them by a    *)
(* family-specific rule.  EVERY state TLC visits is printed as a vector    *)
(* (input bytes, options, capacity -> expected verdict, offset, spans,     *)
(* error kind, completion witness), so every prefix of every enumerated    *)
(* input is replayed against the real parser.                              *)
(*                                                                         *)
(*   BYTE  seed . b . f          b in 0..255, f in Follow                  *)
(*   EXT   seed . w              w in Alpha^(<=L)                          *)
(*   LANE  seed . filler^k . b . f   k <= L, b in LaneBytes, f in Follow   *)
(*         (only self-looping phases: every SIMD/SWAR block phase)         *)
(*   SEQ   seed . x1 . x2 ... xn     xi in Stages[i] (byte strings)        *)
(*   WALK  random walks (tlc -simulate) over a grammar-directed alphabet   *)
(***************************************************************************)
EXTENDS Head, Json, IOUtils
CONSTANTS Family, SeedCaps, SeedKinds, SeedMaxLen, SeedPhases, SeedCfgs, Follow, Alpha, L, LaneBytes, FillMode, LaneTail,
          SeedMod, SeedRem      \* shard: seeds with index % SeedMod = SeedRem
VARIABLES s, buf, cfgb, stage, cnt, todo
vars == <<s, buf, cfgb, stage, cnt, todo>>

Seeds == ndJsonDeserialize(IOEnv.SEEDS)
KindName(i) == CASE i = 0 -> "req" [] i = 1 -> "resp" [] i = 2 -> "hdrs" [] i = 3 -> "chunk"

\* ---- SEQ stage tables (selected by name through the constant L) ----
Str(x) == x       \* byte strings are written as tuples of byte values
Digs == {<<d>> : d \in 48..57}
HexPats(n) == { [i \in 1..n |-> 70], [i \in 1..n |-> 102], [i \in 1..n |-> 48],
                [i \in 1..n |-> IF i = 1 THEN 49 ELSE 48],
                [i \in 1..n |-> IF i = n THEN 57 ELSE 48],
                [i \in 1..n |-> IF i % 3 = 0 THEN 65 ELSE IF i % 3 = 1 THEN 55 ELSE 101] }
StagesOf(name) ==
  CASE name = "CODE" ->
         << {<<72,84,84,80,47,49,46,49,32>>, <<72,84,84,80,47,49,46,48,32>>}, Digs, Digs, Digs,
            {<<LF, LF>>, <<SP, 79, 75, CR, LF, CR, LF>>, <<SP, LF, LF>>} >>
    [] name = "DIGITS" ->
         << UNION {HexPats(n) : n \in 0..40},
            {<<CR, LF>>, <<SEMI, 120, CR, LF>>, <<SP, HT, CR, LF>>, <<LF>>, <<SEMI, 97, 48, 70, 61, 49, CR, LF>>,
             <<SP, SEMI, 48, 102, CR, LF>>} >>
    [] name = "LINES" ->
         LET ls == { <<97, COLON, 98, LF>>, <<97, COLON, SP, 98, SP, CR, LF>>, <<97, COLON, LF>>,
                     <<SP, 99, LF>>, <<120, LF>>, <<97, SP, COLON, 98, LF>>, <<97, COLON, 1, LF>>,
                     <<97, COLON, 98, HT, 99, 200, CR, LF>>,         \* interior HTAB, value ending in obs-text
                     <<SP, CR, LF>>,                                 \* whitespace-only line
                     <<>> }                                          \* (no line: blocks of 0..4 lines)
         IN << ls, ls, ls, ls, {<<LF>>, <<CR, LF>>, <<98, COLON>>} >>
    [] name = "LINES5" ->
         LET ls == { <<97, COLON, 98, LF>>, <<97, COLON, SP, 98, SP, CR, LF>>, <<97, COLON, LF>>,
                     <<SP, 99, LF>>, <<120, LF>>, <<97, SP, COLON, 98, LF>>, <<97, COLON, 1, LF>>,
                     <<HT, LF>>, <<97, COLON, CR, LF>>, <<97, COLON, 98, HT, 99, HT, CR, LF>>, <<97, COLON, SP, 200, LF>>, <<>> }
         IN << ls, ls, ls, ls, ls, {<<LF>>, <<CR, LF>>, <<98, COLON>>} >>
    [] name = "METHODS" ->
         \* the method fast paths of the implementation compare 4 bytes against "GET " and
         \* "POST" and then look one byte further: every prefix of those literals, followed
         \* by every kind of byte, ending the buffer at every point
         << {<<>>, <<CR, LF>>, <<LF>>},
            {<<>>, <<71>>, <<71, 69>>, <<71, 69, 84>>, <<71, 69, 84, 32>>, <<80>>, <<80, 79>>, <<80, 79, 83>>,
             <<80, 79, 83, 84>>, <<80, 79, 83, 84, 32>>, <<80, 85, 84>>, <<71, 69, 84, 84>>, <<80, 79, 83, 84, 83>>,
             <<79, 80, 84, 73, 79, 78, 83>>, <<67, 79, 78, 78, 69, 67, 84>>, <<68, 69, 76, 69, 84, 69>>, <<80, 65, 84, 67, 72>>,
             <<72, 69, 65, 68>>, <<84, 82, 65, 67, 69>>, <<80, 82, 79, 80, 70, 73, 78, 68>>, <<111, 112, 116, 105, 111, 110, 115>>},
            {<<>>} \cup {<<b>> : b \in {0, 9, 10, 13, 32, 33, 47, 58, 65, 84, 97, 127, 128, 255}},
            {<<>>, <<47, 32, 72, 84, 84, 80, 47, 49, 46, 49, 13, 10, 13, 10>>, <<32, 47, 32, 72, 84, 84, 80, 47, 49, 46, 48, 10, 10>>} >>
    [] name = "VERSIONS" ->
         \* the version is compared 8 bytes at a time when 8 bytes are there, byte-wise otherwise
         << {<<71, 69, 84, 32, 47, 32>>, <<>>},
            {SubSeq(<<72, 84, 84, 80, 47, 49, 46, 49>>, 1, k) : k \in 0..8} \cup {<<72, 84, 84, 80, 47, 49, 46, 48>>},
            {<<>>} \cup {<<b>> : b \in {0, 10, 13, 32, 46, 47, 48, 49, 50, 72, 80, 84, 104, 255}},
            {<<>>, <<13, 10, 13, 10>>, <<32, 50, 48, 48, 32, 79, 75, 13, 10, 13, 10>>, <<49, 46, 49, 10, 10>>} >>
    [] name = "REASONS" ->
         \* status lines with every shape of delimiter and reason: empty, leading / trailing /
         \* interior SP and HTAB, obs-text, then both line ends and a header or the end
         << {<<72, 84, 84, 80, 47, 49, 46, 49>>},
            {<<SP>>, <<SP, SP>>},
            {<<50, 48, 48>>, <<52, 48, 52>>},
            {<<>>, <<SP>>, <<SP, SP>>, <<SP, HT>>},
            {<<>>, <<79, 75>>, <<78, 111, 116, SP, 70, 111, 117, 110, 100>>, <<99, 97, 102, 233>>, <<HT>>, <<DEL>>,
             <<97, SP, SP, 98>>, <<128>>},
            {<<>>, <<SP>>, <<SP, SP>>, <<HT>>},
            {<<CR, LF>>, <<LF>>, <<CR>>},
            {<<LF>>, <<CR, LF>>, <<97, COLON, SP, 98, SP, CR, LF, CR, LF>>} >>
    [] name = "PREFACES" ->
         \* well-known protocol prefaces and near-HTTP start lines (code that special-cases them)
         << { <<80,82,73,32,42,32,72,84,84,80,47,50,46,48,13,10,13,10,83,77,13,10,13,10>>,     \* HTTP/2 preface
              <<71,69,84,32,47,32,72,84,84,80,47,50,46,48,13,10,13,10>>,                       \* GET / HTTP/2.0
              <<79,80,84,73,79,78,83,32,42,32,72,84,84,80,47,49,46,49,13,10,13,10>>,           \* OPTIONS * HTTP/1.1
              <<67,79,78,78,69,67,84,32,104,58,52,52,51,32,72,84,84,80,47,49,46,49,13,10,13,10>>, \* CONNECT h:443
              <<72,84,84,80,47,50,32,50,48,48,13,10,13,10>>,                                   \* HTTP/2 200
              <<72,84,84,80,47,49,46,49,32,49,48,48,32,67,111,110,116,105,110,117,101,13,10,13,10>>, \* 100 Continue
              <<73,67,89,32,50,48,48,32,79,75,13,10,13,10>>,                                   \* ICY 200 OK
              <<82,84,83,80,47,49,46,48,32,50,48,48,32,79,75,13,10,13,10>>,                    \* RTSP/1.0 200 OK
              <<83,83,72,45,50,46,48,45,120,13,10>>,                                           \* SSH-2.0-x
              <<22,3,1,0,5,1,0,0,1,0>>,                                                        \* TLS record
              <<71,69,84,32,47,32,72,84,84,80,47,49,46,49,13,10,72,111,115,116,58,32,120,13,10,13,10>> },
            {<<>>, <<120>>} >>
    [] name = "UNISPACE" ->
         \* multi-byte sequences a lenient hand-written check may take for white space, a line end,
         \* a NUL or nothing at all - fed from EVERY abstract state, then one more byte
         << { <<239, 187, 191>>,          \* U+FEFF byte order mark
              <<194, 160>>,               \* U+00A0 no-break space
              <<194, 133>>,               \* U+0085 next line
              <<194, 173>>,               \* U+00AD soft hyphen
              <<226, 128, 139>>,          \* U+200B zero width space
              <<226, 128, 168>>,          \* U+2028 line separator
              <<226, 128, 128>>,          \* U+2000 en quad
              <<227, 128, 128>>,          \* U+3000 ideographic space
              <<192, 128>>,               \* overlong NUL
              <<192, 138>>,               \* overlong LF
              <<224, 128, 160>>,          \* overlong SP
              <<237, 160, 128>>,          \* surrogate
              <<244, 144, 128, 128>>,     \* above U+10FFFF
              <<11>>, <<12>> },           \* VT, FF (white space to some)
            {<<>>, <<97>>, <<32>>, <<58>>, <<10>>} >>
    [] name = "DICT" ->
         \* realistic header names and values (code that special-cases particular headers)
         LET nm == { <<67,111,110,116,101,110,116,45,76,101,110,103,116,104>>,                \* Content-Length
                     <<99,111,110,116,101,110,116,45,108,101,110,103,116,104>>,               \* content-length
                     <<72,111,115,116>>,                                                      \* Host
                     <<84,114,97,110,115,102,101,114,45,69,110,99,111,100,105,110,103>>,      \* Transfer-Encoding
                     <<67,111,110,110,101,99,116,105,111,110>>,                               \* Connection
                     <<67,111,111,107,105,101>>,                                              \* Cookie
                     <<88,45,70,111,114,119,97,114,100,101,100,45,70,111,114>> }              \* X-Forwarded-For
             sep == { <<COLON>>, <<COLON, SP>> }
             vl == { <<48>>, <<49,50>>, <<49,50,44,32,49,50>>, <<43,53>>, <<48,120,49,48>>, <<>>,
                     <<99,104,117,110,107,101,100>>, <<107,101,101,112,45,97,108,105,118,101>>,
                     <<101,120,97,109,112,108,101,46,111,114,103,58,56,48>>, <<97,61,98,59,32,99,61,100>> }
             el == { <<CR, LF>>, <<LF>> }
             nm2 == { <<72,111,115,116>>, <<99,111,110,116,101,110,116,45,108,101,110,103,116,104>>, <<65>> }
             vl2 == { <<49,50>>, <<49,50,44,32,49,50>>, <<>>, <<120>> }
         IN << nm, sep, vl, el, nm2, {<<COLON, SP>>}, vl2, {<<CR, LF>>}, {<<CR, LF>>, <<LF>>} >>
    [] OTHER -> << >>
Stages == StagesOf(L)

LoopPh == {"METHOD", "TARGET", "REASON", "NAME", "NAME_WS", "OWS", "VALUE", "IGN", "EXT",
           "LWS", "SIZE", "RSKIP", "T0", "LEAD", "HLINE"}
Filler(ph) == IF ph \in {"OWS", "NAME_WS", "LWS", "RSKIP", "T0", "HLINE"} THEN SP
              ELSE IF ph = "SIZE" THEN 48 ELSE IF ph = "LEAD" THEN LF ELSE 97
\* "utf8" filler: the two bytes of U+00E9 alternately, so that the byte under test has a
\* neighbour >= 0x80 (word-at-a-time arithmetic lets neighbouring lanes influence each other)
\* while the text before it stays valid UTF-8
\* "ws" filler: SP inside a value / reason (long whitespace runs in and at the end of fields)
\* "utf84" / "utf83": `a` U+1F600 (4 bytes) / `aa` U+20AC (3 bytes), period 5 - coprime to every
\* block width, so over a long field the lead byte visits every offset of a block
U4 == <<97, 240, 159, 152, 128>>
U3 == <<97, 97, 226, 130, 172>>
FillerAt(ph, k) == IF FillMode = "utf84" /\ ph \in {"TARGET", "VALUE", "REASON", "EXT", "IGN"} THEN U4[(k % 5) + 1]
                   ELSE IF FillMode = "utf83" /\ ph \in {"TARGET", "VALUE", "REASON", "EXT", "IGN"} THEN U3[(k % 5) + 1]
                   ELSE IF FillMode = "utf8" /\ ph \in {"TARGET", "VALUE", "REASON", "EXT", "IGN"}
                   THEN (IF k % 2 = 0 THEN 195 ELSE 169)
                   ELSE IF FillMode = "ws" /\ ph \in {"VALUE", "REASON"} THEN SP
                   ELSE Filler(ph)
\* LANE needs few option sets: all-off and all-on per kind
Extreme(k, n) == IF k = "req" THEN n \in {0, 1 + 16 + 32}
                 ELSE IF k = "resp" THEN n \in {0, 2 + 4 + 8 + 16 + 64} ELSE TRUE

SeedOk(i) ==
  /\ i % SeedMod = SeedRem
  /\ KindName(Seeds[i][1]) \in SeedKinds
  /\ Seeds[i][3] \in SeedCaps \/ Seeds[i][1] = 3
  /\ Len(Seeds[i][4]) <= SeedMaxLen
  /\ SeedPhases = {} \/ PhaseNames[Seeds[i][5]] \in SeedPhases
  /\ SeedCfgs = {} \/ Seeds[i][2] \in SeedCfgs
  /\ Family = "LANE" => /\ PhaseNames[Seeds[i][5]] \in LoopPh
                        /\ Extreme(KindName(Seeds[i][1]), Seeds[i][2])

Init == \E i \in 1..Len(Seeds) :
          /\ SeedOk(i)
          /\ buf = Seeds[i][4] /\ cfgb = Seeds[i][2]
          /\ s = Run(KindName(Seeds[i][1]), CfgOfBits(Seeds[i][2]), Seeds[i][3], Seeds[i][4])
          /\ stage = 0 /\ cnt = 0 /\ todo = <<>>

Feed(b) == s' = Step(s, b) /\ buf' = Append(buf, b) /\ cfgb' = cfgb

NextByte == /\ todo' = todo
            /\ \/ stage = 0 /\ \E b \in Byte : Feed(b) /\ stage' = 1 /\ cnt' = cnt
               \/ stage = 1 /\ \E b \in Follow : Feed(b) /\ stage' = 2 /\ cnt' = cnt
NextExt == cnt < L /\ \E b \in Alpha : Feed(b) /\ cnt' = cnt + 1 /\ stage' = stage /\ todo' = todo
\* after the byte under test, LaneTail more filler bytes follow (fed without being emitted one
\* by one), so that the interesting byte is NOT near the end of the buffer: block scanners
\* behave differently when a full block is still available after it
NextLane == \/ /\ stage = 0 /\ cnt < L /\ s.ph \in LoopPh /\ Feed(FillerAt(s.ph, cnt)) /\ cnt' = cnt + 1 /\ stage' = 0 /\ todo' = todo
            \/ /\ stage = 0 /\ \E b \in LaneBytes : Feed(b) /\ stage' = 1 /\ cnt' = cnt
                                /\ todo' = [i \in 1..LaneTail |-> 0]
            \/ /\ stage = 1 /\ todo # <<>> /\ Feed(IF s.ph \in LoopPh THEN Filler(s.ph) ELSE 97)
               /\ todo' = Tail(todo) /\ stage' = 1 /\ cnt' = cnt
            \/ /\ stage = 1 /\ todo = <<>> /\ \E b \in Follow : Feed(b) /\ stage' = 2 /\ cnt' = cnt /\ todo' = todo
NextSeq == /\ cnt' = cnt
           /\ \/ todo # <<>> /\ Feed(Head(todo)) /\ todo' = Tail(todo) /\ stage' = stage
              \/ todo = <<>> /\ stage < Len(Stages) /\ \E x \in Stages[stage + 1] :
                   /\ stage' = stage + 1
                   /\ IF x = <<>> THEN UNCHANGED <<s, buf, cfgb>> /\ todo' = <<>>
                      ELSE Feed(Head(x)) /\ todo' = Tail(x)
\* WALK: bytes that keep the current phase alive, plus a few that do not
WalkBytes == {0, 9, 10, 13, 32, 33, 47, 48, 49, 50, 58, 59, 65, 70, 72, 80, 84, 97, 102, 127, 128, 195, 255, 46}
\* mostly bytes that keep the parse alive (long well-formed heads), plus one that kills it
WalkChoices(x) == {c \in WalkBytes : Step(x, c).st # "E"} \cup {0}
NextWalk == cnt < L /\ \E b \in WalkChoices(s) : Feed(b) /\ cnt' = cnt + 1 /\ stage' = stage /\ todo' = todo

\* a SEQ string is fed to its end even when a byte inside it decided the parse: the verdict is
\* final (Step is absorbing), and the buffer handed to the code is the whole string -- code that
\* recognises a complete well-known string (a protocol preface, a block of digits) is reached
DrainSeq == /\ Family = "SEQ" /\ todo # <<>> /\ Feed(Head(todo)) /\ todo' = Tail(todo)
            /\ stage' = stage /\ cnt' = cnt
Next == \/ /\ ~IsDone(s)
           /\ CASE Family = "BYTE" -> NextByte
                [] Family = "EXT" -> NextExt
                [] Family = "LANE" -> NextLane
                [] Family = "SEQ" -> NextSeq
                [] Family = "WALK" -> NextWalk
        \/ IsDone(s) /\ DrainSeq
Spec == Init /\ [][Next]_vars

\* (inside a LANE tail, and inside the strings of the DICT family, the intermediate states are
\* not emitted: only the states at the boundaries)
Emit == (Family = "LANE" /\ todo # <<>>) \/ (Family = "SEQ" /\ L = "DICT" /\ todo # <<>>)
        \/ PrintT(ToJson(VecOf(s, buf, cfgb)))
=============================================================================
