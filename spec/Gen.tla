-------------------------------- MODULE Gen ---------------------------------
(***************************************************************************)
(* Stage B of the spec->implementation binding: behaviour generators.      *)
(* Every generator starts from the resume contexts found by Skel (one      *)
(* shortest witness per abstract automaton state) and extends them by a    *)
(* family-specific rule.  EVERY state TLC visits is printed as a vector    *)
(* (input bytes, options, capacity -> expected verdict, offset, spans,     *)
(* error kind, completion witness), so every prefix of every enumerated    *)
(* input is replayed against the real parser.                              *)
(***************************************************************************)
EXTENDS Head, Json, IOUtils
CONSTANTS Family,      \* "BYTE" | "EXT" | "LANE" | "WALK"
          SeedCaps,    \* which seed capacities to start from
          SeedKinds,   \* which kinds to start from
          Follow,      \* BYTE: second-byte alphabet
          Alpha,       \* EXT : extension alphabet
          L,           \* EXT : extension length; LANE: max filler run; WALK: depth
          SeedMod, SeedRem  \* shard: use seeds with index % SeedMod = SeedRem
VARIABLES s, buf, cfgb, stage, cnt
vars == <<s, buf, cfgb, stage, cnt>>

Seeds == ndJsonDeserialize(IOEnv.SEEDS)
KindName(i) == CASE i = 0 -> "req" [] i = 1 -> "resp" [] i = 2 -> "hdrs" [] i = 3 -> "chunk"

LoopPh == {"METHOD", "TARGET", "REASON", "NAME", "NAME_WS", "OWS", "VALUE", "IGN", "EXT",
           "LWS", "SIZE", "RSKIP", "T0", "LEAD", "HLINE"}
Filler(ph) == IF ph \in {"OWS", "NAME_WS", "LWS", "RSKIP", "T0", "HLINE"} THEN SP
              ELSE IF ph = "SIZE" THEN 48 ELSE IF ph = "LEAD" THEN LF ELSE 97
\* LANE needs few option sets: all-off and all-on per kind
Extreme(k, n) == IF k = "req" THEN n \in {0, 1 + 16 + 32}
                 ELSE IF k = "resp" THEN n \in {0, 2 + 4 + 8 + 16 + 64} ELSE TRUE

SeedOk(i) ==
  /\ i % SeedMod = SeedRem
  /\ KindName(Seeds[i][1]) \in SeedKinds
  /\ Seeds[i][3] \in SeedCaps \/ Seeds[i][1] = 3
  /\ Family = "LANE" => /\ PhaseNames[Seeds[i][5]] \in LoopPh
                        /\ Extreme(KindName(Seeds[i][1]), Seeds[i][2])

Init == \E i \in 1..Len(Seeds) :
          /\ SeedOk(i)
          /\ buf = Seeds[i][4] /\ cfgb = Seeds[i][2]
          /\ s = Run(KindName(Seeds[i][1]), CfgOfBits(Seeds[i][2]), Seeds[i][3], Seeds[i][4])
          /\ stage = 0 /\ cnt = 0

Feed(b) == s' = Step(s, b) /\ buf' = Append(buf, b) /\ cfgb' = cfgb

NextByte == \/ stage = 0 /\ \E b \in Byte : Feed(b) /\ stage' = 1 /\ cnt' = cnt
            \/ stage = 1 /\ \E b \in Follow : Feed(b) /\ stage' = 2 /\ cnt' = cnt
NextExt == cnt < L /\ \E b \in Alpha : Feed(b) /\ cnt' = cnt + 1 /\ stage' = stage
NextLane == \/ stage = 0 /\ cnt < L /\ s.ph \in LoopPh /\ Feed(Filler(s.ph)) /\ cnt' = cnt + 1 /\ stage' = 0
            \/ stage = 0 /\ \E b \in Byte : Feed(b) /\ stage' = 1 /\ cnt' = cnt
            \/ stage = 1 /\ \E b \in Follow : Feed(b) /\ stage' = 2 /\ cnt' = cnt

Next == /\ ~IsDone(s)
        /\ CASE Family = "BYTE" -> NextByte
             [] Family = "EXT" -> NextExt
             [] Family = "LANE" -> NextLane
Spec == Init /\ [][Next]_vars

Emit == PrintT(ToJson(VecOf(s, buf, cfgb)))
=============================================================================
