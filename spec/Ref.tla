-------------------------------- MODULE Ref ---------------------------------
(***************************************************************************)
(* A second, independent formulation of the accepted languages: a          *)
(* whole-buffer reference parser written the way the property statements   *)
(* read ("one or more tchar, one SP, a target ..., the literal HTTP/1.x,   *)
(* CRLF or LF, then lines name ':' OWS value OWS EOL ...").  It looks at   *)
(* the complete byte sequence with scanning operators (first position not  *)
(* in a class, "is a prefix of the literal", ...) and never keeps a state  *)
(* machine.  Props.tla checks with TLC that the byte-at-a-time automaton   *)
(* of Head.tla and this reference agree on every enumerated input:         *)
(* verdict, offset, error kind, every field span.  "Accepts exactly" is    *)
(* therefore a checked statement between two formulations, not the         *)
(* automaton agreeing with itself.                                         *)
(*                                                                         *)
(* Positions are 1-based indices into buf; a span <<a,b>> is 0-based       *)
(* half-open like in Head (= bytes a+1..b).                                *)
(***************************************************************************)
EXTENDS Head

Eof(buf, i) == i > Len(buf)
\* first position >= i whose byte is not in class P (Len+1 if none)
SkipWhile(buf, i, P(_)) ==
  CHOOSE j \in i..(Len(buf) + 1) :
     /\ \A k \in i..(j - 1) : P(buf[k])
     /\ j = Len(buf) + 1 \/ ~P(buf[j])

RP == [st |-> "P"]
RE(e) == [st |-> "E", err |-> e]

IsSp(b) == b = SP
NotCr(b) == b # CR
NotEolNul(b) == b # CR /\ b # LF /\ b # NUL
IsPrefixOf(w, lit) == Len(w) <= Len(lit) /\ \A i \in 1..Len(w) : w[i] = lit[i]
Lit10 == VerLit \o <<48>>
Lit11 == VerLit \o <<49>>
Min2(a, b) == IF a < b THEN a ELSE b

\* zero or more leading empty lines; result: position of the first other byte
RECURSIVE RefLead(_, _)
RefLead(buf, p) ==
  IF Eof(buf, p) THEN RP
  ELSE IF buf[p] = LF THEN RefLead(buf, p + 1)
  ELSE IF buf[p] = CR THEN
       (IF Eof(buf, p + 1) THEN RP
        ELSE IF buf[p + 1] = LF THEN RefLead(buf, p + 2) ELSE RE("NewLine"))
  ELSE [st |-> "ok", p |-> p]

\* the HTTP-version literal at v: complete (with its digit), still a prefix, or wrong
RefVersion(buf, v) ==
  LET w == SubSeq(buf, v, Min2(v + 7, Len(buf))) IN
  IF Len(w) = 8 /\ w = Lit10 THEN [st |-> "ok", ver |-> 0]
  ELSE IF Len(w) = 8 /\ w = Lit11 THEN [st |-> "ok", ver |-> 1]
  ELSE IF Len(w) < 8 /\ IsPrefixOf(w, VerLit) THEN RP
  ELSE RE("Version")

\* a line end at e with the given error kind: position after it
RefEol(buf, e, kind) ==
  IF Eof(buf, e) THEN RP
  ELSE IF buf[e] = LF THEN [st |-> "ok", p |-> e + 1]
  ELSE IF buf[e] = CR THEN
       (IF Eof(buf, e + 1) THEN RP
        ELSE IF buf[e + 1] = LF THEN [st |-> "ok", p |-> e + 2] ELSE RE(kind))
  ELSE RE(kind)

(***************************************************************************)
(* Header block.  hc = [A, F, S, I].  Lines are taken one logical line at   *)
(* a time; the value of a line extends over continuation lines when F.      *)
(***************************************************************************)
LastVisible(buf, a, b, dflt) ==   \* one past the last non-ws VALUE byte in positions a..b-1
  LET vis == {k \in a..(b - 1) : ~IsWs(buf[k])} IN
  IF vis = {} THEN dflt ELSE (CHOOSE k \in vis : \A m \in vis : m <= k)
FirstVisible(buf, a, b) ==
  LET vis == {k \in a..(b - 1) : ~IsWs(buf[k])} IN
  IF vis = {} THEN 0 ELSE (CHOOSE k \in vis : \A m \in vis : k <= m)

RECURSIVE RefHdrs(_, _, _, _, _), RefBad(_, _, _, _, _, _), RefValue(_, _, _, _, _, _, _, _)
\* an offending byte at p in a header line: fatal, or (I) drop the line through its end
RefBad(buf, p, kind, hc, cap, hdrs) ==
  IF ~hc.I THEN RE(kind)
  ELSE LET j == SkipWhile(buf, p, NotEolNul) IN
       IF Eof(buf, j) THEN RP
       ELSE IF buf[j] = NUL THEN RE(kind)
       ELSE LET e == RefEol(buf, j, kind) IN
            IF e.st # "ok" THEN e ELSE RefHdrs(buf, e.p, hc, cap, hdrs)

\* value text of the logical line; q = first position of the current physical line's text,
\* first/last = 1-based first visible byte / last visible byte so far (0 = none yet)
RefValue(buf, q, name, first, last, hc, cap, hdrs) ==
  LET e == SkipWhile(buf, q, IsValue)
      f == IF first # 0 THEN first ELSE FirstVisible(buf, q, e)
      l == LastVisible(buf, q, e, last)
  IN IF Eof(buf, e) THEN RP
     ELSE IF buf[e] # CR /\ buf[e] # LF THEN RefBad(buf, e, "HeaderValue", hc, cap, hdrs)
     ELSE LET eol == RefEol(buf, e, "HeaderValue") IN
          IF eol.st # "ok" THEN eol        \* CR not followed by LF is fatal even with I
          ELSE IF hc.F /\ Eof(buf, eol.p) THEN RP          \* may still be continued
          ELSE IF hc.F /\ IsWs(buf[eol.p]) THEN RefValue(buf, eol.p, name, f, l, hc, cap, hdrs)
          ELSE IF Len(hdrs) >= cap THEN RE("TooManyHeaders")
          ELSE RefHdrs(buf, eol.p, hc, cap,
                       Append(hdrs, <<name, IF f = 0 THEN NoSpan ELSE <<f - 1, l>> >>))

RefHdrs(buf, p, hc, cap, hdrs) ==
  IF Eof(buf, p) THEN RP
  ELSE IF buf[p] = LF THEN [st |-> "C", n |-> p, hdrs |-> hdrs]
  ELSE IF buf[p] = CR THEN
       (IF Eof(buf, p + 1) THEN RP
        ELSE IF buf[p + 1] = LF THEN [st |-> "C", n |-> p + 1, hdrs |-> hdrs] ELSE RE("NewLine"))
  ELSE IF IsTchar(buf[p]) THEN
       LET nm == SkipWhile(buf, p, IsTchar) IN
       IF Eof(buf, nm) THEN RP
       ELSE IF buf[nm] = COLON THEN RefValue(buf, nm + 1, <<p - 1, nm - 1>>, 0, 0, hc, cap, hdrs)
       ELSE IF hc.A /\ IsWs(buf[nm]) THEN
            LET w == SkipWhile(buf, nm, IsWs) IN
            IF Eof(buf, w) THEN RP
            ELSE IF buf[w] = COLON THEN RefValue(buf, w + 1, <<p - 1, nm - 1>>, 0, 0, hc, cap, hdrs)
            ELSE RefBad(buf, w, "HeaderName", hc, cap, hdrs)
       ELSE RefBad(buf, nm, "HeaderName", hc, cap, hdrs)
  ELSE IF hc.S /\ hdrs = <<>> /\ IsWs(buf[p]) THEN
       RefHdrs(buf, SkipWhile(buf, p, IsWs), hc, cap, hdrs)
  ELSE RefBad(buf, p, "HeaderName", hc, cap, hdrs)

(***************************************************************************)
(* Request: *( CRLF / LF ) method SP target SP HTTP-version EOL headers    *)
(***************************************************************************)
RefReq(buf, Mq, hc, cap) ==
  LET a == RefLead(buf, 1) IN
  IF a.st # "ok" THEN a ELSE
  LET m == SkipWhile(buf, a.p, IsTchar) IN
  IF m = a.p THEN RE("Token")                       \* empty method
  ELSE IF Eof(buf, m) THEN RP
  ELSE IF buf[m] # SP THEN RE("Token")
  ELSE
  LET t == IF Mq THEN SkipWhile(buf, m + 1, IsSp) ELSE m + 1 IN
  IF Eof(buf, t) THEN RP ELSE
  LET u == SkipWhile(buf, t, IsTarget) IN
  IF u = t THEN RE("Token")                         \* empty target
  ELSE IF Eof(buf, u) THEN RP                       \* UTF-8 validity is judged at the SP only
  ELSE IF buf[u] # SP THEN RE("Token")
  ELSE IF ~Utf8Valid(SubSeq(buf, t, u - 1)) THEN RE("Token")
  ELSE
  LET v == IF Mq THEN SkipWhile(buf, u + 1, IsSp) ELSE u + 1 IN
  IF Eof(buf, v) THEN RP ELSE
  LET ver == RefVersion(buf, v) IN
  IF ver.st # "ok" THEN ver ELSE
  LET e == RefEol(buf, v + 8, "NewLine") IN
  IF e.st # "ok" THEN e ELSE
  LET h == RefHdrs(buf, e.p, hc, cap, <<>>) IN
  IF h.st # "C" THEN h
  ELSE [st |-> "C", n |-> h.n, method |-> <<a.p - 1, m - 1>>, path |-> <<t - 1, u - 1>>,
        version |-> ver.ver, hdrs |-> h.hdrs]

(***************************************************************************)
(* Response: *( CRLF / LF ) HTTP-version SP 3DIGIT [ SP reason ] EOL hdrs  *)
(***************************************************************************)
RefResp(buf, Mr, hc, cap) ==
  LET a == RefLead(buf, 1) IN
  IF a.st # "ok" THEN a ELSE
  LET ver == RefVersion(buf, a.p) IN
  IF ver.st # "ok" THEN ver ELSE
  LET s1 == a.p + 8 IN
  IF Eof(buf, s1) THEN RP
  ELSE IF buf[s1] # SP THEN RE("Version")
  ELSE
  LET c == IF Mr THEN SkipWhile(buf, s1 + 1, IsSp) ELSE s1 + 1
      avail == SubSeq(buf, c, Min2(c + 2, Len(buf)))
  IN
  IF \E i \in 1..Len(avail) : ~IsDigit(avail[i]) THEN RE("Status")
  ELSE IF Len(avail) < 3 THEN RP
  ELSE
  LET code == (avail[1] - 48) * 100 + (avail[2] - 48) * 10 + (avail[3] - 48)
      x == c + 3
  IN
  IF Eof(buf, x) THEN RP
  ELSE IF buf[x] = SP THEN
       LET r0 == IF Mr THEN SkipWhile(buf, x + 1, IsSp) ELSE x + 1
           r1 == SkipWhile(buf, r0, IsReason)
       IN IF Eof(buf, r1) THEN RP
          ELSE LET e == RefEol(buf, r1, "Status") IN
               IF e.st # "ok" THEN e ELSE
               LET h == RefHdrs(buf, e.p, hc, cap, <<>>) IN
               IF h.st # "C" THEN h
               ELSE [st |-> "C", n |-> h.n, version |-> ver.ver, code |-> code,
                     reason |-> IF \E k \in r0..(r1 - 1) : IsObs(buf[k]) THEN NoSpan
                                ELSE IF r0 = r1 THEN NoSpan ELSE <<r0 - 1, r1 - 1>>,
                     hdrs |-> h.hdrs]
  ELSE LET e == RefEol(buf, x, "Status") IN
       IF e.st # "ok" THEN e ELSE
       LET h == RefHdrs(buf, e.p, hc, cap, <<>>) IN
       IF h.st # "C" THEN h
       ELSE [st |-> "C", n |-> h.n, version |-> ver.ver, code |-> code, reason |-> NoSpan,
             hdrs |-> h.hdrs]

(***************************************************************************)
(* Chunk size line: 1*16HEXDIG *( SP / HTAB ) [ ";" *( non-CR ) ] CRLF     *)
(***************************************************************************)
RefChunk(buf) ==
  LET d == SkipWhile(buf, 1, IsHex)
      cnt == d - 1
      X == RE("InvalidChunkSize")
  IN
  IF cnt > 16 THEN X
  ELSE IF Eof(buf, d) THEN RP
  ELSE IF cnt = 0 THEN X
  ELSE
  LET w == SkipWhile(buf, d, IsWs) IN
  IF Eof(buf, w) THEN RP
  ELSE IF buf[w] = SEMI THEN
       LET c == SkipWhile(buf, w + 1, NotCr) IN
       IF Eof(buf, c) \/ Eof(buf, c + 1) THEN RP
       ELSE IF buf[c + 1] = LF THEN [st |-> "C", n |-> c + 1, digits |-> [i \in 1..cnt |-> HexVal(buf[i])]]
       ELSE X
  ELSE IF buf[w] = CR THEN
       (IF Eof(buf, w + 1) THEN RP
        ELSE IF buf[w + 1] = LF THEN [st |-> "C", n |-> w + 1, digits |-> [i \in 1..cnt |-> HexVal(buf[i])]]
        ELSE X)
  ELSE X

Ref(kind, cfg, cap, buf) ==
  CASE kind = "req" -> RefReq(buf, cfg.Mq, HdrCfg("req", cfg), cap)
    [] kind = "resp" -> RefResp(buf, cfg.Mr, HdrCfg("resp", cfg), cap)
    [] kind = "hdrs" -> RefHdrs(buf, 1, HdrCfg("hdrs", cfg), cap, <<>>)
    [] kind = "chunk" -> RefChunk(buf)

(***************************************************************************)
(* Agreement of the automaton state s (after buf) with the reference.      *)
(***************************************************************************)
NormV(v) == IF v[1] = v[2] THEN NoSpan ELSE v
NormHdrs(hs) == [i \in 1..Len(hs) |-> <<hs[i][1], NormV(hs[i][2])>>]
Agrees(s, r) ==
  /\ s.st = r.st
  /\ s.st = "E" => s.err = r.err
  /\ s.st = "C" =>
       /\ s.n = r.n
       /\ s.kind = "req" => s.method = r.method /\ s.path = r.path /\ s.version = r.version
       /\ s.kind = "resp" => s.version = r.version /\ s.code = r.code /\ NormV(s.reason) = r.reason
       /\ s.kind # "chunk" => NormHdrs(s.hdrs) = NormHdrs(r.hdrs)
       /\ s.kind = "chunk" => s.digits = r.digits
=============================================================================
