------------------------------ MODULE TraceWork -----------------------------
(***************************************************************************)
(* C20: per-call work counters recorded from the real parser (hook H1) on  *)
(* adversarial inputs up to 1 MiB, judged against the linear-work law.     *)
(* The constants are deliberately generous (DESIGN.md section 4): a linear *)
(* parser cannot trip them whatever its internal structure, a re-scanning  *)
(* (quadratic) one trips them by orders of magnitude at 64 KiB.            *)
(*   travel     sum of all forward cursor movement of every cursor created *)
(*   back       number of backward cursor moves                            *)
(*   peeks      look-ahead operations;  peek_bytes  bytes they examined    *)
(*   us         wall time of the call in microseconds (best of three)      *)
(* The number of cursors is not constrained.  The time bound is a sensor   *)
(* for work the cursor counters cannot see (re-scanning a handed-out       *)
(* slice); its margin is about three orders of magnitude.                  *)
(***************************************************************************)
EXTENDS Integers, Sequences, TLC, Json, IOUtils

Rec == ndJsonDeserialize(IOEnv.TRACE)
VARIABLES l
Linear(r) ==
  /\ ~r.panicked
  /\ r.back = 0
  /\ r.travel <= 2 * r.len + 64
  /\ r.peeks <= 2 * r.len + 64
  /\ r.peek_bytes <= 33 * r.len + 64
  /\ 2 * r.us <= r.len + 20000      \* time: 0.5 microseconds per byte + 10 ms (25x the slowest legitimate case measured)
TInit == l = 1
TWork == l <= Len(Rec) /\ Rec[l].ev = "work" /\ Linear(Rec[l]) /\ l' = l + 1
TSpec == TInit /\ [][TWork]_l
Accepted ==
  IF TLCGet("stats").diameter - 1 = Len(Rec) THEN TRUE
  ELSE PrintT(<<"REJECT", TLCGet("stats").diameter, Len(Rec)>>) /\ FALSE
=============================================================================
