------------------------------ MODULE MCCursor ------------------------------
EXTENDS Cursor
CONSTANT MaxLen
MCInit == len \in 0..MaxLen /\ start = 0 /\ cursor = 0 /\ end = len /\ lastEnd = 0
MCSpecC == MCInit /\ [][CNext]_cvars
=============================================================================
