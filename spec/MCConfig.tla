------------------------------ MODULE MCConfig ------------------------------
EXTENDS Config
\* all 128 option sets are reachable: the conjunction over n of "some state has bits = n"
\* is checked as the number of distinct states (128 x 128 with `saved`)
=============================================================================
