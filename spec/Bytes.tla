------------------------------- MODULE Bytes -------------------------------
(***************************************************************************)
(* Byte classes of HTTP/1.x as the property statements (and RFC 7230)      *)
(* give them.  Written from the statements, not copied from the crate's    *)
(* lookup tables.  No state; every operator is a constant-level predicate  *)
(* over 0..255.  ASSUMEs at the end are evaluated by TLC when any model    *)
(* that extends this module is loaded.                                     *)
(***************************************************************************)
EXTENDS Naturals, Sequences, FiniteSets

Byte == 0..255

NUL == 0
HT == 9
LF == 10
CR == 13
SP == 32
COLON == 58
SEMI == 59
DEL == 127

IsDigit(b) == b >= 48 /\ b <= 57
IsUpper(b) == b >= 65 /\ b <= 90
IsLower(b) == b >= 97 /\ b <= 122
IsAlpha(b) == IsUpper(b) \/ IsLower(b)

\* tchar = "!" / "#" / "$" / "%" / "&" / "'" / "*" / "+" / "-" / "." /
\*         "^" / "_" / "`" / "|" / "~" / DIGIT / ALPHA
TcharPunct == {33, 35, 36, 37, 38, 39, 42, 43, 45, 46, 94, 95, 96, 124, 126}
TcharTab == [b \in Byte |-> IsDigit(b) \/ IsAlpha(b) \/ b \in TcharPunct]
IsTchar(b) == TcharTab[b]

IsVchar(b) == b >= 33 /\ b <= 126
IsObs(b) == b >= 128
IsWs(b) == b = SP \/ b = HT

\* request-target bytes: 0x21-0x7E and 0x80-0xFF
IsTarget(b) == IsVchar(b) \/ IsObs(b)
\* header field value bytes: HTAB, SP, VCHAR, obs-text
IsValue(b) == IsWs(b) \/ IsVchar(b) \/ IsObs(b)
\* reason-phrase bytes (same set; obs-text makes the reported reason empty)
IsReason(b) == IsWs(b) \/ IsVchar(b) \/ IsObs(b)

IsHex(b) == IsDigit(b) \/ (b >= 65 /\ b <= 70) \/ (b >= 97 /\ b <= 102)
HexVal(b) == IF IsDigit(b) THEN b - 48 ELSE IF b >= 97 THEN b - 87 ELSE b - 55

\* "HTTP/1."
VerLit == <<72, 84, 84, 80, 47, 49, 46>>

(***************************************************************************)
(* Strict UTF-8 (Unicode 15, Table 3-7) as a DFA.  States: 0 accept;       *)
(* 1,2,3 = that many plain continuation bytes still needed; 4 after E0;    *)
(* 5 after ED; 6 after F0; 7 after F4; 8 dead.                              *)
(***************************************************************************)
Utf8Dead == 8
IsCont(b) == b >= 128 /\ b <= 191
Utf8Step(q, b) ==
  CASE q = 8 -> 8
    [] q = 0 -> IF b < 128 THEN 0
                ELSE IF b >= 194 /\ b <= 223 THEN 1
                ELSE IF b = 224 THEN 4
                ELSE IF (b >= 225 /\ b <= 236) \/ b = 238 \/ b = 239 THEN 2
                ELSE IF b = 237 THEN 5
                ELSE IF b = 240 THEN 6
                ELSE IF b >= 241 /\ b <= 243 THEN 3
                ELSE IF b = 244 THEN 7
                ELSE 8
    [] q = 1 -> IF IsCont(b) THEN 0 ELSE 8
    [] q = 2 -> IF IsCont(b) THEN 1 ELSE 8
    [] q = 3 -> IF IsCont(b) THEN 2 ELSE 8
    [] q = 4 -> IF b >= 160 /\ b <= 191 THEN 1 ELSE 8
    [] q = 5 -> IF b >= 128 /\ b <= 159 THEN 1 ELSE 8
    [] q = 6 -> IF b >= 144 /\ b <= 191 THEN 2 ELSE 8
    [] q = 7 -> IF b >= 128 /\ b <= 143 THEN 2 ELSE 8

RECURSIVE Utf8Run(_, _, _)
Utf8Run(q, seq, i) == IF i > Len(seq) THEN q ELSE Utf8Run(Utf8Step(q, seq[i]), seq, i + 1)
Utf8Valid(seq) == Utf8Run(0, seq, 1) = 0

\* bytes that bring DFA state q back to accept (used by completion witnesses)
Utf8Finish(q) ==
  CASE q = 0 -> <<>>
    [] q = 1 -> <<128>>
    [] q = 2 -> <<128, 128>>
    [] q = 3 -> <<128, 128, 128>>
    [] q = 4 -> <<160, 128>>
    [] q = 5 -> <<128, 128>>
    [] q = 6 -> <<144, 128, 128>>
    [] q = 7 -> <<128, 128, 128>>
    [] OTHER -> <<>>

(***************************************************************************)
(* Coarsest partition of 0..255 on which every predicate above, the UTF-8   *)
(* lead/continuation structure and every literal byte the grammar mentions  *)
(* agree.  Signature = tuple of all distinguishing observations.            *)
(***************************************************************************)
Literals == {NUL, HT, LF, CR, SP, COLON, SEMI, DEL,
             72, 84, 80, 47, 49, 46, 48,       \* H T P / 1 . 0
             71, 69, 79, 83}                   \* G E O S  (GET / POST fast paths)
Sig(b) == << IsTchar(b), IsTarget(b), IsValue(b), IsHex(b), IsDigit(b), IsWs(b),
             IF b \in Literals THEN b ELSE 256,
             Utf8Step(0, b), Utf8Step(1, b), Utf8Step(4, b), Utf8Step(5, b),
             Utf8Step(6, b), Utf8Step(7, b) >>
ClassOf(b) == {c \in Byte : Sig(c) = Sig(b)}
Classes == {ClassOf(b) : b \in Byte}
MinOf(S) == CHOOSE x \in S : \A y \in S : x <= y
MaxOf(S) == CHOOSE x \in S : \A y \in S : x >= y
\* smallest and largest member of each class
Reps == UNION {{MinOf(C), MaxOf(C)} : C \in Classes}

ASSUME UNION Classes = Byte
ASSUME \A C, D \in Classes : C = D \/ C \cap D = {}
ASSUME \A b \in Byte : IsTchar(b) => IsTarget(b) /\ IsValue(b) /\ ~IsWs(b)
ASSUME \A b \in Byte : IsHex(b) => IsTchar(b)
ASSUME ~IsTarget(DEL) /\ ~IsValue(DEL) /\ ~IsTchar(COLON) /\ ~IsTarget(SP) /\ IsValue(HT)
ASSUME Cardinality({b \in Byte : IsTchar(b)}) = 77
ASSUME Cardinality({b \in Byte : IsTarget(b)}) = 94 + 128
ASSUME Cardinality({b \in Byte : IsValue(b)}) = 96 + 128
=============================================================================
