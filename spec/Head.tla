-------------------------------- MODULE Head --------------------------------
(***************************************************************************)
(* The reference automaton of httparse: what the parser knows after the    *)
(* bytes delivered so far, one transition per delivered byte.              *)
(*                                                                         *)
(*   kind   "req" | "resp" | "hdrs" | "chunk"                              *)
(*   cfg    [Mq, Mr, A, F, S, Iq, Ir]  (the seven ParserConfig booleans)   *)
(*   cap    header-array capacity (Inf = unlimited)                        *)
(*                                                                         *)
(* A state is a record; fields of the message are SPANS <<from,to>> into   *)
(* the byte sequence fed so far (0-based, half-open), never copies.        *)
(* Step(s,b) is the transition function; Run folds it.  The phases and     *)
(* their transitions follow DESIGN.md Appendix A; the code region of       *)
(* src/lib.rs each phase corresponds to is named in the comments.          *)
(***************************************************************************)
EXTENDS Bytes, TLC

Inf == 100000
NoSpan == <<0, 0>>
NoVal == 65535

Kinds == {"req", "resp", "hdrs", "chunk"}
ErrKinds == {"Token", "Version", "NewLine", "Status", "HeaderName", "HeaderValue",
             "TooManyHeaders", "InvalidChunkSize"}

B7 == BOOLEAN
AllCfgs == [Mq : B7, Mr : B7, A : B7, F : B7, S : B7, Iq : B7, Ir : B7]
DefCfg == [Mq |-> FALSE, Mr |-> FALSE, A |-> FALSE, F |-> FALSE, S |-> FALSE,
           Iq |-> FALSE, Ir |-> FALSE]
\* options each kind reads (all others must be irrelevant: property C15)
ReqCfgs  == {c \in AllCfgs : ~c.Mr /\ ~c.A /\ ~c.F /\ ~c.Ir}
RespCfgs == {c \in AllCfgs : ~c.Mq /\ ~c.Iq}
CfgsOf(k) == IF k = "req" THEN ReqCfgs ELSE IF k = "resp" THEN RespCfgs ELSE {DefCfg}
Bit(x) == IF x THEN 1 ELSE 0
CfgBits(c) == Bit(c.Mq) + 2 * Bit(c.Mr) + 4 * Bit(c.A) + 8 * Bit(c.F) + 16 * Bit(c.S)
              + 32 * Bit(c.Iq) + 64 * Bit(c.Ir)
CfgOfBits(n) == [Mq |-> n % 2 = 1, Mr |-> (n \div 2) % 2 = 1, A |-> (n \div 4) % 2 = 1,
                 F |-> (n \div 8) % 2 = 1, S |-> (n \div 16) % 2 = 1,
                 Iq |-> (n \div 32) % 2 = 1, Ir |-> (n \div 64) % 2 = 1]

\* effective header-block options [A, F, S, I] per kind
HdrCfg(kind, cfg) ==
  IF kind = "req" THEN [A |-> FALSE, F |-> FALSE, S |-> cfg.S, I |-> cfg.Iq]
  ELSE IF kind = "resp" THEN [A |-> cfg.A, F |-> cfg.F, S |-> cfg.S, I |-> cfg.Ir]
  ELSE [A |-> FALSE, F |-> FALSE, S |-> FALSE, I |-> FALSE]

InitState(kind, cfg, cap) ==
  [ kind |-> kind,
    M |-> IF kind = "req" THEN cfg.Mq ELSE IF kind = "resp" THEN cfg.Mr ELSE FALSE,
    hc |-> HdrCfg(kind, cfg), cap |-> cap,
    ph |-> IF kind = "hdrs" THEN "HLINE" ELSE IF kind = "chunk" THEN "SIZE" ELSE "LEAD",
    pos |-> 0,          \* bytes consumed so far
    k |-> 0,            \* small counter: version-literal index, code digit, hex-digit count
    t0 |-> 0,           \* start of the token being scanned
    lv |-> 0,           \* one past the last visible (non-whitespace) value byte
    q |-> 0,            \* UTF-8 DFA state of the request target
    obs |-> FALSE,      \* obs-text seen in the reason phrase
    acc |-> 0,          \* status code accumulator
    err |-> "",         \* error kind (final, or pending kind of the ignored line)
    st |-> "P",         \* verdict so far: P(artial) C(omplete) E(rr)
    n |-> 0,            \* Complete(n)
    lead |-> 0,         \* offset of the start line (after leading empty lines)
    hstart |-> 0,       \* offset of the header block
    method |-> NoSpan, path |-> NoSpan, version |-> NoVal, code |-> NoVal,
    reason |-> NoSpan, hasreason |-> FALSE,
    name |-> NoSpan,    \* name span of the header in progress
    hdrs |-> <<>>,      \* stored headers: << <<ns,ne>>, <<vs,ve>> >>
    digits |-> <<>> ]   \* chunk size as its hex digit values

Fail(s, e) == [s EXCEPT !.st = "E", !.err = e, !.ph = "DONE"]
Finish(s) == [s EXCEPT !.st = "C", !.n = s.pos + 1, !.ph = "DONE", !.err = ""]

\* `iter.next()` on the header array, then the write and `num_headers += 1`
Store(s, vs, ve) ==
  IF Len(s.hdrs) >= s.cap THEN Fail(s, "TooManyHeaders")
  ELSE [s EXCEPT !.hdrs = Append(@, <<s.name, <<vs, ve>> >>), !.ph = "HLINE", !.err = ""]

\* `handle_invalid_char!`
Invalid(s, e, b) ==
  IF ~s.hc.I THEN Fail(s, e)
  ELSE IF b = CR THEN [s EXCEPT !.ph = "IGN_CR", !.err = e]
  ELSE IF b = LF THEN [s EXCEPT !.ph = "HLINE", !.err = ""]
  ELSE IF b = NUL THEN Fail(s, e)
  ELSE [s EXCEPT !.ph = "IGN", !.err = e]

ChunkErr(s) == Fail(s, "InvalidChunkSize")
ToHeaders(s, p) == [s EXCEPT !.ph = "HLINE", !.hstart = p + 1]

RECURSIVE StepPh(_, _)
StepPh(s, b) ==
  LET p == s.pos IN
  CASE s.ph = "LEAD" ->                                   \* skip_empty_lines
         IF b = CR THEN [s EXCEPT !.ph = "LEAD_CR"]
         ELSE IF b = LF THEN s
         ELSE IF s.kind = "req" THEN
              (IF IsTchar(b) THEN [s EXCEPT !.ph = "METHOD", !.t0 = p, !.lead = p]
               ELSE Fail(s, "Token"))
         ELSE StepPh([s EXCEPT !.ph = "VER", !.k = 0, !.lead = p], b)
    [] s.ph = "LEAD_CR" ->
         IF b = LF THEN [s EXCEPT !.ph = "LEAD"] ELSE Fail(s, "NewLine")
    [] s.ph = "METHOD" ->                                 \* parse_method / parse_token
         IF IsTchar(b) THEN s
         ELSE IF b = SP THEN [s EXCEPT !.method = <<s.t0, p>>, !.ph = "T0"]
         ELSE Fail(s, "Token")
    [] s.ph = "T0" ->                                     \* skip_spaces (Mq), first target byte
         IF b = SP /\ s.M THEN s
         ELSE IF IsTarget(b) THEN [s EXCEPT !.ph = "TARGET", !.t0 = p, !.q = Utf8Step(0, b)]
         ELSE Fail(s, "Token")
    [] s.ph = "TARGET" ->                                 \* parse_uri; UTF-8 judged at the SP
         IF IsTarget(b) THEN [s EXCEPT !.q = Utf8Step(s.q, b)]
         ELSE IF b = SP THEN
              (IF s.q = 0 THEN [s EXCEPT !.path = <<s.t0, p>>, !.ph = "VER", !.k = 0]
               ELSE Fail(s, "Token"))
         ELSE Fail(s, "Token")
    [] s.ph = "VER" ->                                    \* skip_spaces (Mq), parse_version
         IF s.k = 0 /\ b = SP /\ s.M /\ s.kind = "req" THEN s
         ELSE IF s.k < 7 THEN
              (IF b = VerLit[s.k + 1] THEN [s EXCEPT !.k = @ + 1] ELSE Fail(s, "Version"))
         ELSE IF b = 48 \/ b = 49 THEN
              [s EXCEPT !.version = b - 48, !.k = 0,
                        !.ph = IF s.kind = "req" THEN "REQ_EOL" ELSE "RSP1"]
         ELSE Fail(s, "Version")
    [] s.ph = "REQ_EOL" ->                                \* newline!
         IF b = CR THEN [s EXCEPT !.ph = "REQ_EOL_CR"]
         ELSE IF b = LF THEN ToHeaders(s, p)
         ELSE Fail(s, "NewLine")
    [] s.ph = "REQ_EOL_CR" ->
         IF b = LF THEN ToHeaders(s, p) ELSE Fail(s, "NewLine")
    [] s.ph = "RSP1" ->                                   \* space!(Error::Version)
         IF b = SP THEN [s EXCEPT !.ph = "C0", !.k = 0, !.acc = 0] ELSE Fail(s, "Version")
    [] s.ph = "C0" ->                                     \* skip_spaces (Mr), parse_code
         IF s.k = 0 /\ b = SP /\ s.M THEN s
         ELSE IF IsDigit(b) THEN
              (IF s.k < 2 THEN [s EXCEPT !.k = @ + 1, !.acc = s.acc * 10 + (b - 48)]
               ELSE [s EXCEPT !.code = s.acc * 10 + (b - 48), !.ph = "AFTER_CODE", !.k = 0])
         ELSE Fail(s, "Status")
    [] s.ph = "AFTER_CODE" ->                             \* the 4-way match after the code
         IF b = SP THEN [s EXCEPT !.ph = IF s.M THEN "RSKIP" ELSE "REASON",
                                  !.t0 = p + 1, !.obs = FALSE]
         ELSE IF b = CR THEN [s EXCEPT !.ph = "AC_CR"]
         ELSE IF b = LF THEN ToHeaders([s EXCEPT !.hasreason = TRUE, !.reason = NoSpan], p)
         ELSE Fail(s, "Status")
    [] s.ph = "AC_CR" ->
         IF b = LF THEN ToHeaders([s EXCEPT !.hasreason = TRUE, !.reason = NoSpan], p)
         ELSE Fail(s, "Status")
    [] s.ph = "RSKIP" ->                                  \* skip_spaces (Mr) before the reason
         IF b = SP THEN s ELSE StepPh([s EXCEPT !.ph = "REASON", !.t0 = p], b)
    [] s.ph = "REASON" ->                                 \* parse_reason
         IF b = CR THEN [s EXCEPT !.ph = "REASON_CR"]
         ELSE IF b = LF THEN
              ToHeaders([s EXCEPT !.hasreason = TRUE,
                                  !.reason = IF s.obs THEN NoSpan ELSE <<s.t0, p>>], p)
         ELSE IF ~IsReason(b) THEN Fail(s, "Status")
         ELSE IF IsObs(b) THEN [s EXCEPT !.obs = TRUE]
         ELSE s
    [] s.ph = "REASON_CR" ->
         IF b = LF THEN
              ToHeaders([s EXCEPT !.hasreason = TRUE,
                                  !.reason = IF s.obs THEN NoSpan ELSE <<s.t0, p - 1>>], p)
         ELSE Fail(s, "Status")
    \* ---- header block: parse_headers_iter_uninit ----
    [] s.ph = "HLINE" ->
         IF b = CR THEN [s EXCEPT !.ph = "HEND_CR"]
         ELSE IF b = LF THEN Finish(s)
         ELSE IF IsTchar(b) THEN [s EXCEPT !.ph = "NAME", !.t0 = p]
         ELSE IF s.hc.S /\ Len(s.hdrs) = 0 /\ IsWs(b) THEN s
         ELSE Invalid(s, "HeaderName", b)
    [] s.ph = "HEND_CR" -> IF b = LF THEN Finish(s) ELSE Fail(s, "NewLine")
    [] s.ph = "NAME" ->
         IF IsTchar(b) THEN s
         ELSE IF b = COLON THEN [s EXCEPT !.name = <<s.t0, p>>, !.ph = "OWS"]
         ELSE IF s.hc.A /\ IsWs(b) THEN [s EXCEPT !.name = <<s.t0, p>>, !.ph = "NAME_WS"]
         ELSE Invalid(s, "HeaderName", b)
    [] s.ph = "NAME_WS" ->
         IF IsWs(b) THEN s
         ELSE IF b = COLON THEN [s EXCEPT !.ph = "OWS"]
         ELSE Invalid(s, "HeaderName", b)
    [] s.ph = "OWS" ->
         IF IsWs(b) THEN s
         ELSE IF IsValue(b) THEN [s EXCEPT !.ph = "VALUE", !.t0 = p, !.lv = p + 1]
         ELSE IF b = CR THEN [s EXCEPT !.ph = "OWS_CR"]
         ELSE IF b = LF THEN
              (IF s.hc.F THEN [s EXCEPT !.ph = "FOLD_E", !.t0 = p] ELSE Store(s, p, p))
         ELSE Invalid(s, "HeaderValue", b)
    [] s.ph = "OWS_CR" ->
         IF b = LF THEN
              (IF s.hc.F THEN [s EXCEPT !.ph = "FOLD_E", !.t0 = p - 1] ELSE Store(s, p - 1, p - 1))
         ELSE Fail(s, "HeaderValue")
    [] s.ph = "FOLD_E" ->                                 \* maybe_continue_after_obsolete_line_folding!
         IF IsWs(b) THEN [s EXCEPT !.ph = "OWS"]
         ELSE LET s2 == Store(s, s.t0, s.t0) IN IF s2.st = "E" THEN s2 ELSE StepPh(s2, b)
    [] s.ph = "VALUE" ->
         IF IsValue(b) THEN (IF IsWs(b) THEN s ELSE [s EXCEPT !.lv = p + 1])
         ELSE IF b = CR THEN [s EXCEPT !.ph = "VAL_CR"]
         ELSE IF b = LF THEN
              (IF s.hc.F THEN [s EXCEPT !.ph = "FOLD_V"] ELSE Store(s, s.t0, s.lv))
         ELSE Invalid(s, "HeaderValue", b)
    [] s.ph = "VAL_CR" ->
         IF b = LF THEN
              (IF s.hc.F THEN [s EXCEPT !.ph = "FOLD_V"] ELSE Store(s, s.t0, s.lv))
         ELSE Fail(s, "HeaderValue")
    [] s.ph = "FOLD_V" ->
         IF IsWs(b) THEN [s EXCEPT !.ph = "VALUE"]
         ELSE LET s2 == Store(s, s.t0, s.lv) IN IF s2.st = "E" THEN s2 ELSE StepPh(s2, b)
    [] s.ph = "IGN" -> Invalid(s, s.err, b)
    [] s.ph = "IGN_CR" ->
         IF b = LF THEN [s EXCEPT !.ph = "HLINE", !.err = ""] ELSE Fail(s, s.err)
    \* ---- parse_chunk_size ----
    [] s.ph = "SIZE" ->
         IF IsHex(b) THEN
              (IF s.k > 15 THEN ChunkErr(s)
               ELSE [s EXCEPT !.k = @ + 1, !.digits = Append(@, HexVal(b))])
         ELSE IF s.k = 0 THEN ChunkErr(s)                 \* C09: at least one digit
         ELSE IF b = CR THEN [s EXCEPT !.ph = "CCR"]
         ELSE IF b = SEMI THEN [s EXCEPT !.ph = "EXT"]
         ELSE IF IsWs(b) THEN [s EXCEPT !.ph = "LWS"]
         ELSE ChunkErr(s)
    [] s.ph = "LWS" ->
         IF IsWs(b) THEN s
         ELSE IF b = SEMI THEN [s EXCEPT !.ph = "EXT"]
         ELSE IF b = CR THEN [s EXCEPT !.ph = "CCR"]
         ELSE ChunkErr(s)
    [] s.ph = "EXT" -> IF b = CR THEN [s EXCEPT !.ph = "CCR"] ELSE s
    [] s.ph = "CCR" -> IF b = LF THEN Finish(s) ELSE ChunkErr(s)
    [] s.ph = "DONE" -> s

IsDone(s) == s.ph = "DONE"
\* Complete and Err are absorbing: further bytes change nothing, not even pos
Step(s, b) == IF IsDone(s) THEN s ELSE [StepPh(s, b) EXCEPT !.pos = s.pos + 1]

RECURSIVE RunFrom(_, _, _)
\* (the test on t.pos only forces t before the recursive call: TLC passes operator arguments
\* lazily, and a chain of Len(seq) suspended Steps overflows its stack on long inputs)
RunFrom(s, seq, i) == IF i > Len(seq) THEN s
                      ELSE LET t == Step(s, seq[i]) IN IF t.pos >= 0 THEN RunFrom(t, seq, i + 1) ELSE t
RunOn(s, seq) == RunFrom(s, seq, 1)
Run(kind, cfg, cap, seq) == RunFrom(InitState(kind, cfg, cap), seq, 1)

(***************************************************************************)
(* Action labels: which grammar element (and which region of src/lib.rs)   *)
(* handled byte b in state s.  Used for per-action coverage and carried in *)
(* vectors.                                                                *)
(***************************************************************************)
ActionOf(s, b) ==
  LET t == Step(s, b) IN
  IF IsDone(s) THEN "Absorbed"
  ELSE IF t.st = "E" THEN (IF t.err = "TooManyHeaders" THEN "TooMany" ELSE "Reject")
  ELSE IF t.st = "C" THEN (IF s.kind = "chunk" THEN "ChunkEnd" ELSE "HeadEnd")
  ELSE CASE s.ph \in {"LEAD", "LEAD_CR"} /\ t.ph \in {"LEAD", "LEAD_CR"} -> "LeadingEmptyLine"
         [] s.ph = "LEAD" /\ t.ph = "METHOD" -> "MethodByte"
         [] s.ph = "LEAD" -> "VersionByte"
         [] s.ph = "METHOD" -> IF t.ph = "T0" THEN "MethodEnd" ELSE "MethodByte"
         [] s.ph = "T0" -> IF t.ph = "T0" THEN "DelimSpaces" ELSE "TargetByte"
         [] s.ph = "TARGET" -> IF t.ph = "VER" THEN "TargetEnd" ELSE "TargetByte"
         [] s.ph = "VER" -> IF t.ph = "VER" /\ t.k = s.k THEN "DelimSpaces" ELSE "VersionByte"
         [] s.ph \in {"REQ_EOL", "REQ_EOL_CR"} -> "ReqLineEnd"
         [] s.ph = "RSP1" -> "RespSpace"
         [] s.ph = "C0" -> IF t.ph = "C0" /\ t.k = s.k THEN "DelimSpaces" ELSE "CodeDigit"
         [] s.ph \in {"AFTER_CODE", "AC_CR"} -> "AfterCode"
         [] s.ph = "RSKIP" -> IF t.ph = "RSKIP" THEN "DelimSpaces"
                              ELSE IF t.ph = "HLINE" THEN "ReasonEnd" ELSE "ReasonByte"
         [] s.ph = "REASON" -> IF t.ph = "REASON" THEN "ReasonByte" ELSE "ReasonEnd"
         [] s.ph = "REASON_CR" -> "ReasonEnd"
         [] s.ph \in {"HLINE", "HEND_CR"} ->
              IF t.ph \in {"IGN", "IGN_CR"} THEN "IgnoreByte"
              ELSE IF t.ph = "NAME" THEN "HdrNameByte" ELSE "HdrLineStart"
         [] s.ph = "NAME" -> IF t.ph = "NAME" THEN "HdrNameByte"
                             ELSE IF t.ph = "OWS" THEN "HdrColon"
                             ELSE IF t.ph = "NAME_WS" THEN "HdrNameWs"
                             ELSE IF t.ph = "HLINE" THEN "IgnoreEol" ELSE "IgnoreByte"
         [] s.ph = "NAME_WS" -> IF t.ph = "NAME_WS" THEN "HdrNameWs"
                                ELSE IF t.ph = "OWS" THEN "HdrColon"
                                ELSE IF t.ph = "HLINE" THEN "IgnoreEol" ELSE "IgnoreByte"
         [] s.ph \in {"OWS", "OWS_CR"} ->
              IF t.ph \in {"OWS", "OWS_CR"} THEN "HdrOws"
              ELSE IF t.ph = "VALUE" THEN "HdrValueByte"
              ELSE IF t.ph = "FOLD_E" THEN "HdrEmptyValueEol"
              ELSE IF t.ph = "HLINE" /\ Len(t.hdrs) > Len(s.hdrs) THEN "StoreHeader"
              ELSE IF t.ph = "HLINE" THEN "IgnoreEol" ELSE "IgnoreByte"
         [] s.ph \in {"VALUE", "VAL_CR"} ->
              IF t.ph \in {"VALUE", "VAL_CR"} THEN "HdrValueByte"
              ELSE IF t.ph = "FOLD_V" THEN "HdrValueEol"
              ELSE IF t.ph = "HLINE" /\ Len(t.hdrs) > Len(s.hdrs) THEN "StoreHeader"
              ELSE IF t.ph = "HLINE" THEN "IgnoreEol" ELSE "IgnoreByte"
         [] s.ph \in {"FOLD_E", "FOLD_V"} ->
              IF Len(t.hdrs) > Len(s.hdrs) THEN "StoreHeader" ELSE "FoldDecision"
         [] s.ph \in {"IGN", "IGN_CR"} -> IF t.ph = "HLINE" THEN "IgnoreEol" ELSE "IgnoreByte"
         [] s.ph = "SIZE" -> IF t.ph = "SIZE" THEN "ChunkDigit"
                             ELSE IF t.ph = "LWS" THEN "ChunkLws"
                             ELSE IF t.ph = "EXT" THEN "ChunkExtStart" ELSE "ChunkCr"
         [] s.ph = "LWS" -> IF t.ph = "LWS" THEN "ChunkLws"
                            ELSE IF t.ph = "EXT" THEN "ChunkExtStart" ELSE "ChunkCr"
         [] s.ph = "EXT" -> IF t.ph = "EXT" THEN "ChunkExtByte" ELSE "ChunkCr"
         [] OTHER -> "Unlabelled"

ActionNames ==
  {"LeadingEmptyLine", "MethodByte", "MethodEnd", "DelimSpaces", "TargetByte", "TargetEnd",
   "VersionByte", "ReqLineEnd", "RespSpace", "CodeDigit", "AfterCode", "ReasonByte",
   "ReasonEnd", "HdrLineStart", "HdrNameByte", "HdrColon", "HdrNameWs", "HdrOws",
   "HdrEmptyValueEol", "HdrValueByte", "HdrValueEol", "FoldDecision", "StoreHeader",
   "TooMany", "IgnoreByte", "IgnoreEol", "HeadEnd", "Reject", "ChunkDigit", "ChunkLws",
   "ChunkExtStart", "ChunkExtByte", "ChunkCr", "ChunkEnd"}

(***************************************************************************)
(* Completion witnesses (property C11, DESIGN.md Appendix B).              *)
(***************************************************************************)
HdrPhases == {"NAME", "NAME_WS", "OWS", "OWS_CR", "FOLD_E", "VALUE", "VAL_CR", "FOLD_V"}
Full(s) == Len(s.hdrs) >= s.cap

\* <<1>> is a byte that is invalid everywhere in a header line but ignorable
Junk == 1
\* A header in progress with the array already full cannot be stored.  With the
\* ignore option the line can still be spoiled and dropped, except right after
\* its CR (where anything but LF is fatal and LF stores the header).
Deferred(s) ==
  \/ s.ph = "TARGET" /\ s.q = Utf8Dead
  \/ /\ s.ph \in HdrPhases /\ Full(s)
     /\ \/ ~s.hc.I
        \/ s.ph \in {"OWS_CR", "VAL_CR"} /\ ~s.hc.F

TailReq == <<SP, 47, SP>> \o VerLit \o <<49, LF, LF>>        \* " / HTTP/1.1" LF LF
RestVer(k) == SubSeq(VerLit \o <<49>>, k + 1, 8)
Completion(s) ==
  LET spoil == s.ph \in HdrPhases /\ Full(s) IN
  CASE s.ph = "LEAD" -> IF s.kind = "req" THEN <<65>> \o TailReq
                        ELSE RestVer(0) \o <<SP, 50, 48, 48, LF, LF>>
    [] s.ph = "LEAD_CR" -> <<LF>> \o (IF s.kind = "req" THEN <<65>> \o TailReq
                                      ELSE RestVer(0) \o <<SP, 50, 48, 48, LF, LF>>)
    [] s.ph = "METHOD" -> TailReq
    [] s.ph = "T0" -> SubSeq(TailReq, 2, Len(TailReq))
    [] s.ph = "TARGET" -> Utf8Finish(s.q) \o SubSeq(TailReq, 3, Len(TailReq))
    [] s.ph = "VER" -> RestVer(s.k) \o (IF s.kind = "req" THEN <<LF, LF>>
                                        ELSE <<SP, 50, 48, 48, LF, LF>>)
    [] s.ph \in {"REQ_EOL", "REQ_EOL_CR"} -> <<LF, LF>>
    [] s.ph = "RSP1" -> <<SP, 50, 48, 48, LF, LF>>
    [] s.ph = "C0" -> SubSeq(<<50, 48, 48>>, s.k + 1, 3) \o <<LF, LF>>
    [] s.ph \in {"AFTER_CODE", "AC_CR", "RSKIP", "REASON", "REASON_CR"} -> <<LF, LF>>
    [] s.ph \in {"HLINE", "HEND_CR"} -> <<LF>>
    [] s.ph \in {"NAME", "NAME_WS"} -> IF spoil THEN <<Junk, LF, LF>> ELSE <<COLON, LF, LF>>
    [] s.ph \in {"OWS", "VALUE"} -> IF spoil THEN <<Junk, LF, LF>> ELSE <<LF, LF>>
    [] s.ph \in {"OWS_CR", "VAL_CR"} -> IF spoil THEN <<LF, SP, Junk, LF, LF>> ELSE <<LF, LF>>
    [] s.ph \in {"FOLD_E", "FOLD_V"} -> IF spoil THEN <<SP, Junk, LF, LF>> ELSE <<LF>>
    [] s.ph \in {"IGN", "IGN_CR"} -> <<LF, LF>>
    [] s.ph = "SIZE" -> IF s.k = 0 THEN <<48, CR, LF>> ELSE <<CR, LF>>
    [] s.ph \in {"LWS", "EXT"} -> <<CR, LF>>
    [] s.ph = "CCR" -> <<LF>>
    [] OTHER -> <<>>

\* completing needs room for headers: run the witness with unlimited capacity
\* unless the point is to show the full array can be escaped (spoil case)
HonestPartialAt(s) ==
  (s.st = "P" /\ ~Deferred(s)) => RunOn(s, Completion(s)).st = "C"
\* deferred states never complete: closed under Step up to Err (inductive)
DeferredClosedAt(s) ==
  Deferred(s) => \A b \in Byte : LET t == Step(s, b) IN
                                   t.st = "E" \/ (t.st = "P" /\ Deferred(t))

(***************************************************************************)
(* Observable projection and the positional vector encoding used to ship   *)
(* expected results to the Rust replayer (all integers, no strings).       *)
(***************************************************************************)
KindId(k) == CASE k = "req" -> 0 [] k = "resp" -> 1 [] k = "hdrs" -> 2 [] k = "chunk" -> 3
StId(x) == CASE x = "P" -> 0 [] x = "C" -> 1 [] x = "E" -> 2
ErrId(e) == CASE e = "" -> 0 [] e = "Token" -> 1 [] e = "Version" -> 2 [] e = "NewLine" -> 3
              [] e = "Status" -> 4 [] e = "HeaderName" -> 5 [] e = "HeaderValue" -> 6
              [] e = "TooManyHeaders" -> 7 [] e = "InvalidChunkSize" -> 8
PhaseNames == <<"LEAD", "LEAD_CR", "METHOD", "T0", "TARGET", "VER", "REQ_EOL", "REQ_EOL_CR",
                "RSP1", "C0", "AFTER_CODE", "AC_CR", "RSKIP", "REASON", "REASON_CR",
                "HLINE", "HEND_CR", "NAME", "NAME_WS", "OWS", "OWS_CR", "FOLD_E", "VALUE",
                "VAL_CR", "FOLD_V", "IGN", "IGN_CR", "SIZE", "LWS", "EXT", "CCR", "DONE">>
PhId(ph) == CHOOSE i \in 1..Len(PhaseNames) : PhaseNames[i] = ph

Project(s) ==
  [kind |-> s.kind, st |-> s.st, n |-> s.n, err |-> IF s.st = "E" THEN s.err ELSE "",
   method |-> s.method, path |-> s.path, version |-> s.version, code |-> s.code,
   hasreason |-> s.hasreason, reason |-> s.reason, hdrs |-> s.hdrs, digits |-> s.digits]

\* [kind, cfgbits, cap, buf, st, n, err, method, path, version, code, hasreason, reason,
\*  hdrs, digits, phase, deferred, completion, lead, hstart, pending-line-start]
VecOf(s, buf, cfgbits) ==
  << KindId(s.kind), cfgbits, s.cap, buf, StId(s.st), s.n,
     IF s.st = "E" THEN ErrId(s.err) ELSE 0,
     s.method, s.path, s.version, s.code, Bit(s.hasreason), s.reason,
     [i \in 1..Len(s.hdrs) |-> <<s.hdrs[i][1][1], s.hdrs[i][1][2], s.hdrs[i][2][1], s.hdrs[i][2][2]>>],
     s.digits, PhId(s.ph), Bit(s.st = "P" /\ Deferred(s)),
     IF s.st = "P" THEN Completion(s) ELSE <<>>, s.lead, s.hstart >>
=============================================================================
