------------------------------- MODULE MCHead -------------------------------
(***************************************************************************)
(* Model-checking harness: the generator state space of Gen (resume        *)
(* contexts from the skeleton, extended by a family rule) with the listed  *)
(* properties as invariants / action properties instead of vector          *)
(* emission.  One extra action keeps feeding bytes after a final verdict,  *)
(* so that "Complete and Err are absorbing" is exercised, not vacuous.     *)
(***************************************************************************)
EXTENDS Gen, Props

PostDone == /\ IsDone(s) /\ stage < 90
            /\ \E b \in {LF, SP, 97} : Feed(b) /\ stage' = 90 + stage /\ UNCHANGED <<cnt, todo>>
MCNext == Next \/ PostDone
MCSpec == Init /\ [][MCNext]_vars

InvFraming == Framing(s, buf)
InvSpans == Spans(s, buf)
InvHygiene == Hygiene(s, buf)
InvLanguage == Language(s, buf)
InvPast == ReportedFieldsArePast(s)
InvHonest == HonestPartialAt(s)
InvDeferredClosed == DeferredClosedAt(s)
InvTotal == \A b \in Byte : Step(s, b).st \in {"P", "C", "E"} /\ Step(s, b).pos <= s.pos + 1
InvCompleteDetermined == CompleteDetermined(s)
InvConsumed == s.pos = Len(buf) \/ (IsDone(s) /\ s.pos <= Len(buf))

PropAbsorbing == [][AbsorbingStep(s, s')]_vars
PropFieldsMonotone == [][FieldsMonotoneStep(s, s')]_vars
PropHeadersAppendOnly == [][HeadersAppendOnlyStep(s, s')]_vars
=============================================================================
