-------------------------------- MODULE Scan ---------------------------------
(***************************************************************************)
(* The accelerated byte-class scanners (property C12), modelled at the     *)
(* level of their arithmetic:                                              *)
(*  - SWAR (src/simd/swar.rs): the word functions as byte lanes with an     *)
(*    explicit BORROW CHAIN (wrapping subtraction on the whole word =       *)
(*    lane-wise subtract-with-borrow; after `& 0x80..80` only bit 7 of      *)
(*    every lane matters), and the loop "block, re-examine the byte the     *)
(*    block stopped at, continue" that turns conservative false positives   *)
(*    into exact stops; block size 8 and 4 (32-bit targets);                *)
(*  - SSE4.2 / AVX2 (sse42.rs, avx2.rs): max_epu8 / cmpeq / andnot / or /   *)
(*    movemask / trailing_ones lane by lane, the `>= 16` / `>= 32` loops    *)
(*    and the SWAR tail;                                                    *)
(*  - NEON (neon.rs): vqtbl1q_u8 nibble-table lookup with the 0x8F mask,    *)
(*    vshrq_n_u8, vceqq, vcleq, vbicq, vorrq, vmvnq and the lane-pair       *)
(*    offsetnz.                                                             *)
(* Each is compared with the declarative ScanStop: first index outside     *)
(* the class, else the length.                                              *)
(***************************************************************************)
EXTENDS Bytes, Bitwise, TLC

InClass(c, b) == CASE c = "uri" -> IsTarget(b) [] c = "val" -> IsValue(b) [] c = "name" -> IsTchar(b)
ClassNames == {"uri", "val", "name"}

\* number of leading bytes of seq (from index from+1) that are in class c
RECURSIVE ScanFrom(_, _, _)
ScanFrom(c, seq, i) == IF i > Len(seq) THEN Len(seq)
                       ELSE IF InClass(c, seq[i]) THEN ScanFrom(c, seq, i + 1) ELSE i - 1
ScanStop(c, seq) == ScanFrom(c, seq, 1)

Min(a, b) == IF a < b THEN a ELSE b
FirstFalse(bits) ==       \* 0-based index of the first FALSE, Len if none
  LET z == {i \in 1..Len(bits) : ~bits[i]} IN
  IF z = {} THEN Len(bits) ELSE (CHOOSE i \in z : \A j \in z : i <= j) - 1

(***************************************************************************)
(* SWAR                                                                     *)
(***************************************************************************)
\* flags of `x.wrapping_sub(uniform(m)) & !x & 0x80..`: lane i is flagged iff bit 7 of
\* (x_i - m - borrow_in) mod 256 is set and bit 7 of x_i is clear.  Lane 1 is the least
\* significant byte (little endian, `from_ne_bytes`).
RECURSIVE SubFlags(_, _, _, _, _)
SubFlags(x, m, i, borrow, acc) ==
  IF i > Len(x) THEN acc
  ELSE LET d == (x[i] + 256 - m - borrow) % 256
           bo == IF x[i] < m + borrow THEN 1 ELSE 0
       IN SubFlags(x, m, i + 1, bo, Append(acc, d >= 128 /\ x[i] < 128))

SwarBlock(c, blk) ==      \* match_uri_char_8_swar / match_header_value_char_8_swar
  LET m == IF c = "uri" THEN 33 ELSE 32
      lt == SubFlags(blk, m, 1, 0, <<>>)
      xd == [i \in 1..Len(blk) |-> blk[i] ^^ 127]
      eq == SubFlags(xd, 1, 1, 0, <<>>)
  IN FirstFalse([i \in 1..Len(blk) |-> ~(lt[i] \/ eq[i])])      \* offsetnz

NaiveBlock(c, blk) == FirstFalse([i \in 1..Len(blk) |-> InClass(c, blk[i])])   \* match_block

\* swar::match_uri_vectored / match_header_value_vectored
RECURSIVE SwarLoop(_, _, _, _)
SwarLoop(c, seq, cur, BS) ==
  LET rem == Len(seq) - cur IN
  IF rem >= BS THEN
     LET n == SwarBlock(c, SubSeq(seq, cur + 1, cur + BS)) IN
     IF n = BS THEN SwarLoop(c, seq, cur + BS, BS)
     ELSE LET cur2 == cur + n IN           \* falls through to the single-byte check
          IF InClass(c, seq[cur2 + 1]) THEN SwarLoop(c, seq, cur2 + 1, BS) ELSE cur2
  ELSE IF rem > 0 /\ InClass(c, seq[cur + 1]) THEN SwarLoop(c, seq, cur + 1, BS)
  ELSE cur

\* swar::match_header_name_vectored: naive blocks, then match_tail
RECURSIVE NameLoop(_, _, _)
NameLoop(seq, cur, BS) ==
  IF Len(seq) - cur >= BS THEN
     LET n == NaiveBlock("name", SubSeq(seq, cur + 1, cur + BS)) IN
     IF n = BS THEN NameLoop(seq, cur + BS, BS) ELSE cur + n
  ELSE cur + NaiveBlock("name", SubSeq(seq, cur + 1, Len(seq)))

Swar(c, seq, cur, BS) == IF c = "name" THEN NameLoop(seq, cur, BS) ELSE SwarLoop(c, seq, cur, BS)

(***************************************************************************)
(* SSE4.2 / AVX2: lanes are bytes; comparison results are 0 / 255           *)
(***************************************************************************)
Lanes(v) == 1..Len(v)
Dup(n, b) == [i \in 1..n |-> b]
MaxEpu8(a, b) == [i \in Lanes(a) |-> IF a[i] > b[i] THEN a[i] ELSE b[i]]
CmpEq(a, b) == [i \in Lanes(a) |-> IF a[i] = b[i] THEN 255 ELSE 0]
AndNot(a, b) == [i \in Lanes(a) |-> (255 - a[i]) & b[i]]          \* ~a & b
Or8(a, b) == [i \in Lanes(a) |-> a[i] | b[i]]
MoveMask(a) == [i \in Lanes(a) |-> a[i] >= 128]
X86Block(c, dat) ==
  LET n == Len(dat)
      low == CmpEq(MaxEpu8(dat, Dup(n, IF c = "uri" THEN 33 ELSE 32)), dat)   \* dat >= LOW
      del == CmpEq(dat, Dup(n, 127))
      tab == CmpEq(dat, Dup(n, 9))
      bit == IF c = "uri" THEN AndNot(del, low) ELSE AndNot(del, Or8(low, tab))
  IN FirstFalse(MoveMask(bit))                                     \* trailing_ones

RECURSIVE X86Loop(_, _, _, _)
X86Loop(c, seq, cur, W) ==        \* W = 16 (SSE4.2) or 32 (AVX2); tail: SWAR with 8-byte blocks
  IF Len(seq) - cur >= W THEN
     LET adv == X86Block(c, SubSeq(seq, cur + 1, cur + W)) IN
     IF adv = W THEN X86Loop(c, seq, cur + W, W) ELSE cur + adv
  ELSE SwarLoop(c, seq, cur, 8)
X86(c, seq, W) == IF c = "name" THEN NameLoop(seq, 0, 8) ELSE X86Loop(c, seq, 0, W)

(***************************************************************************)
(* NEON                                                                     *)
(***************************************************************************)
Vand(a, b) == [i \in Lanes(a) |-> a[i] & b[i]]
Vbic(a, b) == [i \in Lanes(a) |-> a[i] & (255 - b[i])]
Vmvn(a) == [i \in Lanes(a) |-> 255 - a[i]]
Vshr4(a) == [i \in Lanes(a) |-> a[i] \div 16]
Vcle(a, b) == [i \in Lanes(a) |-> IF a[i] <= b[i] THEN 255 ELSE 0]
Vqtbl1(tbl, idx) == [i \in Lanes(idx) |-> IF idx[i] < 16 THEN tbl[idx[i] + 1] ELSE 0]
\* offsetnz: first non-zero lane via the two 64-bit halves
OffsetNz(x) ==
  LET lowNz == {i \in 1..8 : x[i] # 0}
      highNz == {i \in 9..16 : x[i] # 0}
  IN IF lowNz # {} THEN (CHOOSE i \in lowNz : \A j \in lowNz : i <= j) - 1
     ELSE IF highNz # {} THEN 8 + ((CHOOSE i \in highNz : \A j \in highNz : i <= j) - 9)
     ELSE 16
OffsetZ(x) == OffsetNz(Vmvn(x))
\* BITMAPS.0: for low nibble lo, bit hi set iff byte (hi*16+lo) < 128 is a tchar
Pow2(k) == CASE k = 0 -> 1 [] k = 1 -> 2 [] k = 2 -> 4 [] k = 3 -> 8 [] k = 4 -> 16 [] k = 5 -> 32
             [] k = 6 -> 64 [] k = 7 -> 128
RECURSIVE SumBits(_, _)
SumBits(lo, hi) == IF hi > 7 THEN 0 ELSE (IF IsTchar(hi * 16 + lo) THEN Pow2(hi) ELSE 0) + SumBits(lo, hi + 1)
Bitmap07 == [i \in 1..16 |-> SumBits(i - 1, 0)]
BitmaskLookup == <<1, 2, 4, 8, 16, 32, 64, 128, 1, 2, 4, 8, 16, 32, 64, 128>>
NeonBlock(c, input) ==
  CASE c = "name" ->
         LET idx == Vand(input, Dup(16, 143))                       \* 0x8F
             row == Vqtbl1(Bitmap07, idx)
             bitmask == Vqtbl1(BitmaskLookup, Vshr4(input))
             tmp == Vand(row, bitmask)
         IN OffsetZ(CmpEq(tmp, bitmask))
    [] c = "uri" ->
         LET r == Vcle(Dup(16, 33), input)
             del == CmpEq(input, Dup(16, 127))
         IN OffsetZ(Vbic(r, del))
    [] c = "val" ->
         LET r == Vcle(Dup(16, 32), input)
             tab == CmpEq(input, Dup(16, 9))
             del == CmpEq(input, Dup(16, 127))
         IN OffsetZ(Vbic(Or8(r, tab), del))
RECURSIVE NeonLoop(_, _, _)
NeonLoop(c, seq, cur) ==
  IF Len(seq) - cur >= 16 THEN
     LET adv == NeonBlock(c, SubSeq(seq, cur + 1, cur + 16)) IN
     IF adv = 16 THEN NeonLoop(c, seq, cur + 16) ELSE cur + adv
  ELSE Swar(c, seq, cur, 8)

\* ---- which scanner is which backend
Backends == {"swar8", "swar4", "sse42", "avx2", "neon"}
Scanner(backend, c, seq) ==
  CASE backend = "swar8" -> Swar(c, seq, 0, 8)
    [] backend = "swar4" -> Swar(c, seq, 0, 4)
    [] backend = "sse42" -> X86(c, seq, 16)
    [] backend = "avx2" -> X86(c, seq, 32)
    [] backend = "neon" -> NeonLoop(c, seq, 0)

(***************************************************************************)
(* lane-level facts, all 256 byte values (evaluated once when loaded)       *)
(***************************************************************************)
ASSUME \A c \in {"uri", "val"}, b \in Byte : (X86Block(c, <<b>>) = 1) <=> InClass(c, b)
ASSUME \A c \in ClassNames, b \in Byte :
         (NeonBlock(c, [i \in 1..16 |-> IF i = 1 THEN b ELSE 97]) = 16) <=> InClass(c, b)
\* a SWAR block never skips an out-of-class byte, whatever its neighbours (borrow chain)
BlockSound(c, blk) == \A i \in 1..SwarBlock(c, blk) : InClass(c, blk[i])
=============================================================================
