-------------------------------- MODULE Skel --------------------------------
(***************************************************************************)
(* Stage A of the spec->implementation binding: explore Head to unbounded  *)
(* depth under a VIEW that hides the buffer and all offsets.  What is left *)
(* is the finite abstract automaton (kind, phase, counters, flags, option  *)
(* set, remaining capacity, ...).  TLC evaluates an invariant once per new *)
(* view fingerprint, so `Emit` prints exactly one shortest witness input   *)
(* per abstract state: the resume contexts ("seeds") of every generator.   *)
(***************************************************************************)
EXTENDS Head, Json
CONSTANTS Alphabet, SKinds, Caps
VARIABLES s, buf, cfgb

CapsOf(k) == IF k = "chunk" THEN {0} ELSE Caps

Init == \E k \in SKinds : \E c \in CfgsOf(k), cap \in CapsOf(k) :
          s = InitState(k, c, cap) /\ buf = <<>> /\ cfgb = CfgBits(c)
Next == /\ ~IsDone(s)
        /\ \E b \in Alphabet : s' = Step(s, b) /\ buf' = Append(buf, b) /\ cfgb' = cfgb
Spec == Init /\ [][Next]_<<s, buf, cfgb>>

\* remaining capacity must be abstracted for cap = Inf, or the view is unbounded
CapLeft(x) == IF x.cap >= Inf THEN 9 ELSE x.cap - Len(x.hdrs)
Abs == <<s.kind, s.ph, s.k, CapLeft(s), Len(s.hdrs) = 0, s.err, s.st, s.q, s.obs, cfgb>>
Emit == PrintT(ToJson(<<KindId(s.kind), cfgb, s.cap, buf, PhId(s.ph)>>))
\* which grammar elements (action labels) handle the alphabet's bytes in this abstract state:
\* aggregated by the driver into the per-element coverage reported in every evidence file
EmitLabels == PrintT(<<"LABELS", ToJson({ActionOf(s, b) : b \in Alphabet})>>)

\* design-level properties evaluated on every abstract state
HonestPartial == HonestPartialAt(s)
DeferredClosed == DeferredClosedAt(s)
Labelled == \A b \in Alphabet : ActionOf(s, b) \in ActionNames \cup {"Absorbed"}
=============================================================================
