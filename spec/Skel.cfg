SPECIFICATION Spec
CONSTANTS
  Alphabet = {0, 1, 9, 10, 13, 32, 34, 58, 59, 65, 97, 103, 127, 128, 195, 224, 237, 240, 244, 255, 72, 84, 80, 47, 49, 46, 48, 50}
  SKinds = {"req", "resp", "hdrs", "chunk"}
  Caps = {0, 1, 2, 100000}
INVARIANT Emit HonestPartial DeferredClosed Labelled
VIEW Abs
CHECK_DEADLOCK FALSE
