------------------------------- MODULE TraceCall ------------------------------
(***************************************************************************)
(* Implementation -> specification for LONG inputs (4 KiB .. 70 KiB, up to  *)
(* several hundred header lines): one recorded call per input, the bytes   *)
(* shipped in chunks so that TLC folds `Step` over them chunk by chunk.    *)
(* The result of the real call - verdict, offset, error kind, every field  *)
(* span, every header span - must equal the automaton's.  This is where    *)
(* length-dependent slips show (a 16-bit length, a header counter that     *)
(* wraps, an offset computed in the wrong width), which per-byte traces    *)
(* and enumerated vectors are too short to reach.                          *)
(*  {"ev":"begin",kind,cfg,cap}  {"ev":"bytes","b":[..]}*                   *)
(*  {"ev":"end",st,n,err,m,p,v,c,r,h,digits,panicked}                      *)
(***************************************************************************)
EXTENDS Head, Json, IOUtils

CONSTANTS Parts,     \* which parts of the result this run judges: "st" "n" "err" "fields" "headers" "count" "digits" "allocs" "slots"
          JKinds     \* which kinds (0 req, 1 resp, 2 hdrs, 3 chunk) are judged
Rec == ndJsonDeserialize(IOEnv.TRACE)
VARIABLES l, s
KindName(i) == CASE i = 0 -> "req" [] i = 1 -> "resp" [] i = 2 -> "hdrs" [] i = 3 -> "chunk"
StOf(x) == CASE x = 0 -> "P" [] x = 1 -> "C" [] x = 2 -> "E"
SpanIs(sp, want) == IF want[1] = want[2] THEN sp[1] = sp[2] /\ sp[1] >= 0 ELSE sp = want

TInit == l = 1 /\ s = InitState("req", DefCfg, 0)
TBegin == /\ l <= Len(Rec) /\ Rec[l].ev = "begin" /\ l' = l + 1
          /\ s' = InitState(KindName(Rec[l].kind), CfgOfBits(Rec[l].cfg), Rec[l].cap)
TBytes == /\ l <= Len(Rec) /\ Rec[l].ev = "bytes" /\ l' = l + 1 /\ s' = RunOn(s, Rec[l].b)
On(p) == p \in Parts
ResultOk(e) ==
  KindId(s.kind) \in JKinds =>
    /\ ~e.panicked
    /\ On("allocs") => e.allocs = 0            \* C19: no heap allocation, whatever the size
    /\ On("twin") => e.twin # 0                \* the > 4 GiB twin of this input agrees up to the shift (Pump.tla); -1: none
    /\ On("entries") => e.entries = 0          \* C16: every entry point of the kind gave this very result
    /\ On("slots") => e.slots_ok = 1           \* C17: canaries, untouched slots beyond the count
    /\ On("st") => StOf(e.st) = s.st
    /\ On("n") => /\ s.st = "C" => e.st # 0
                  /\ e.st = 1 => s.st = "C" /\ e.n = s.n
    /\ On("err") => /\ (s.st = "E" /\ e.st = 2 => e.err = ErrId(s.err))
                    /\ (e.st = 2 => s.st = "E")     \* an error needs an offending byte
    /\ s.st = "C" /\ e.st = 1 =>
         /\ On("fields") /\ s.kind = "req" => SpanIs(e.m, s.method) /\ SpanIs(e.p, s.path) /\ e.v = s.version
         /\ On("fields") /\ s.kind = "resp" => e.v = s.version /\ e.c = s.code /\ SpanIs(e.r, s.reason)
         /\ On("count") /\ s.kind # "chunk" => e.hcount = Len(s.hdrs)
         /\ On("headers") /\ s.kind # "chunk" =>
              /\ e.hcount = Len(s.hdrs)
              /\ \A i \in 1..Len(e.h) :           \* (lists of more than 2000 headers are sent as a count only) /\ <<e.h[i][1], e.h[i][2]>> = s.hdrs[i][1]
                                           /\ SpanIs(<<e.h[i][3], e.h[i][4]>>, s.hdrs[i][2])
         /\ On("digits") /\ s.kind = "chunk" => e.digits = s.digits
TEnd == /\ l <= Len(Rec) /\ Rec[l].ev = "end" /\ ResultOk(Rec[l]) /\ l' = l + 1 /\ UNCHANGED s
TSpec == TInit /\ [][TBegin \/ TBytes \/ TEnd]_<<l, s>>
Accepted ==
  IF TLCGet("stats").diameter - 1 = Len(Rec) THEN TRUE
  ELSE PrintT(<<"REJECT", TLCGet("stats").diameter, Len(Rec)>>) /\ FALSE
=============================================================================
