#!/bin/bash
# usage: tools/try_mutant.sh <patch.diff> <prop> [<prop>...]   (applies to /repo, runs quick checks, restores)
set -u
P=$(readlink -f "$1"); shift
cd /repo || exit 2
git diff --quiet || { echo "/repo is dirty"; exit 2; }
git apply "$P" || { echo "patch does not apply"; exit 2; }
for prop in "$@"; do
  echo "--- $prop"
  (cd /verif && ./check $prop --tier ${TIER:-quick} 2>&1 | grep -E "^VIOLATION|^OK|^TOOL-ERROR|^  [a-zA-Z]|KNOWN" | head -8)
done
git -C /repo checkout -- . 
git -C /repo status --short | head -3
