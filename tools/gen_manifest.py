#!/usr/bin/env python3
"""Regenerates /verif/MANIFEST.json from the table below (kept next to the checks so it stays current)."""
import json, os, sys
V = os.path.dirname(os.path.dirname(os.path.abspath(__file__)))
sys.path.insert(0, os.path.join(V, "lib"))
ids = [json.loads(l)["id"] for l in open(os.path.join(V, "properties.jsonl"))]

TECH = {
 "C01": ("TLC: Head totality + Cursor.tla contract; TLC-generated vectors replayed with guard pages/alignments/backends in release and debug-assertion builds; cursor-operation traces validated by TLC (TraceOps)", "5 C01"),
 "C02": ("TLC action properties (absorbing, field/headers monotone) on Head; Parser.tla refinement on all buffers and their prefixes; every generated prefix replayed, parent/child and suffix stability on the real results; per-byte feed traces validated by TLC", "5 C02"),
 "C03": ("TLC invariant Framing (independent first-empty-line definition) on Head; vectors replayed, (verdict, n) compared", "5 C03"),
 "C04": ("TLC invariant Spans + Cursor.tla hand-out discipline; pointer-offset comparison of every returned slice against spec spans; Client.tla histories rendered to Rust programs and judged by rustc", "5 C04"),
 "C05": ("TLC invariant Hygiene on Head; all 256 byte values at every abstract state and lane replayed; observed fields judged with class tables exported from Bytes.tla", "5 C05"),
 "C06": ("TLC: automaton (Head) == declarative reference (Ref) on request lines; TLC-generated vectors (BYTE/EXT/LANE/LEN) replayed against the real parser, exact comparison", "5 C06"),
 "C07": ("TLC: Head == Ref on status lines; vectors incl. all 1000 codes replayed, exact comparison", "5 C07"),
 "C08": ("TLC: Head == Ref on default header blocks; vectors (BYTE/EXT/LANE/LEN/LINES) replayed for hdrs/req/resp", "5 C08"),
 "C09": ("TLC: Head == Ref on chunk-size lines, exhaustive over a 14-symbol alphabet; CHUNK/DIGITS vectors replayed in release and debug-assertion builds", "5 C09"),
 "C10": ("TLC: error kind of Head == error kind of Ref (first offending element); Err-kind projection of BYTE/EXT/LINES vectors on the real parser", "5 C10"),
 "C11": ("Parser.tla refinement (no deferred decisions beyond the two stated); TLC invariants HonestPartial (constructive completion witness) and DeferredClosed on every abstract state; witnesses replayed on the real parser for every Partial vector", "5 C11"),
 "C12": ("TLC: SWAR borrow-chain / SSE / AVX2 / NEON lane models == ScanStop in Scan.tla; scanner results of every compiled backend recorded and validated by TLC (TraceScan)", "5 C12"),
 "C13": ("TLC: Build.tla exactly-one-provider over all switch combinations, Runtime.tla cold-start race; same vectors replayed under forced backends, build variants, profiles, alignments; race traces validated by TLC", "5 C13"),
 "C14": ("TLC: Head == Ref parameterised by the 16 header-option sets; option-specific seeds (NAME_WS, FOLD, IGN) extended and replayed", "5 C14"),
 "C15": ("TLC lock-step product over configurations (Multi.tla); every vector re-run under all option sets the kind must ignore, default-Complete inputs under all 128", "5 C15"),
 "C16": ("one automaton per kind in the spec; every vector through all 4 request / 3 response entry points, hdrs vectors embedded after start lines", "5 C16"),
 "C17": ("TLC: capacity law on Head/Ref with caps 0,1,2,Inf; LINES vectors x capacities replayed with sentinel-filled arrays and canary slots, all entry points", "5 C17"),
 "C18": ("TLC: Session.tla history independence; call histories on one reused value recorded from the real code and validated by TLC (TraceSession)", "5 C18"),
 "C19": ("outcome coverage from the TLC skeleton; counting global allocator around every replayed call; no_std link test", "5 C19"),
 "C20": ("TLC: Cursor.tla forward-only contract; Parser.tla (algorithm at cursor-operation granularity) refines Head with travel <= len; work counters on adversarial inputs up to 1 MiB and cursor-operation traces validated by TLC (TraceWork, TraceOps)", "5 C20"),
}
LEVELTEXT = {
 "model_checking": "TLC checks the property on the TLA+ specification exhaustively within the stated bounds, and the specification is bound to the code in both directions: TLC-generated behaviours are replayed against the real parser and traces recorded from the real parser are validated by TLC. This decides the property for the design and gives bounded conformance evidence for the code.",
 "other": "The specification supplies outcome coverage (one witness per abstract automaton state and error kind); the judgement itself is a sensor (allocation counter, linker), not a model.",
}
import props
claimed = sorted(props.PLANS)
checks = []
for pid in claimed:
    lvl = props.LEVEL.get(pid, "model_checking")
    checks.append({
        "property_id": pid,
        "quick_cmd": "./check %s --tier quick" % pid,
        "thorough_cmd": "./check %s --tier thorough" % pid,
        "evidence_file": "/verif/evidence/%s.json" % pid,
        "replay_cmd_template": "./check %s --replay {path}" % pid,
        "engine": "tla-conformance",
        "level_claimed": {"category": lvl, "text": LEVELTEXT[lvl], "design_ref": "DESIGN.md section " + TECH[pid][1]},
        "level_note": "trusted: TLC/SANY and community modules, the specification's reading of the property statement, the replayer's observation code, kernel page protection; conformance is bounded to the vectors and traces explored",
        "technique": TECH[pid][0],
    })
na = [{"property_id": i, "reason": "check not built yet (framework under construction; see DESIGN.md section 10)"} for i in ids if i not in claimed]
hooks = [l.split()[0] for l in os.popen("git -C /repo log --format='%h %s' | grep 'verif hook'").read().splitlines()]
m = {"version": 1,
     "setup_cmd": "./check setup",
     "hooks": {"guard": "--cfg httparse_verif",
               "enable": "RUSTFLAGS='--cfg httparse_verif' (set for the harness by /verif/harness/.cargo/config.toml)",
               "baseline_off_cmd": "cd /repo && cargo test --workspace --no-fail-fast --offline",
               "source_commits": hooks[::-1], "add_only": True},
     "engines": [{"name": "tla-conformance", "path": "/verif/check", "serves_properties": claimed,
                  "kind_free_text": "TLA+ specification suite in /verif/spec checked with TLC; spec->impl: TLC-generated vectors replayed by /verif/harness (Rust); impl->spec: ndjson traces recorded by the harness drivers and validated by TLC trace specifications"}],
     "checks": checks,
     "notes": "All checks rebuild /verif/harness against /repo's working tree (path dependency, --cfg httparse_verif). Vector files depend only on the specification and are cached under /verif/work/cache/<spec hash>.",
     "not_applicable": na}
json.dump(m, open(os.path.join(V, "MANIFEST.json"), "w"), indent=1)
print("claimed", len(claimed), "n/a", len(na))
