#!/usr/bin/env python3
"""Runs every seeded change against the quick check of the property it breaks (expects VIOLATION,
exit 1) and every refactor against a set of checks (expects exit 0); writes seeded/selftest.json.
Applies patches to /repo and restores it after each one; run only when nothing else uses /repo."""
import glob, json, os, subprocess, sys, time
V = os.path.dirname(os.path.dirname(os.path.abspath(__file__)))
REFAC = {"R1-reset-fields-at-call-start": ["C02", "C18", "C06", "C17"], "R2-report-request-fields-later": ["C02", "C18", "C06", "C11"],
         "R8-response-reset-fields": ["C02", "C18", "C07"], "R3-version-bytewise-only": ["C01", "C06", "C11", "C20"],
         "R4-token-loop-peek-bump": ["C01", "C06", "C20"], "R5-no-method-fast-paths": ["C01", "C06", "C02"],
         "R6-swar-uri-bytewise": ["C12", "C13", "C06"], "R7-trim-forward-loop": ["C08", "C14", "C20", "C05"],
         "R9-avx2-page-aware-correct": ["C12", "C13", "C01", "C05", "C02", "C06"], "R10-code-peek3-correct": ["C07", "C11", "C01", "C02"],
         "R11-reason-scratch-cursor": ["C20", "C01", "C07", "C04"], "R12-swar-value-two-blocks": ["C12", "C08", "C13", "C20"],
         "R13-capacity-check-before-store": ["C17", "C10", "C16"], "R14-skip-empty-lines-next": ["C01", "C06", "C20", "C03"]}


def run(patch, prop):
    assert subprocess.run(["git", "-C", "/repo", "diff", "--quiet"]).returncode == 0, "/repo dirty"
    if subprocess.run(["git", "-C", "/repo", "apply", patch]).returncode != 0:
        return {"rc": None, "note": "patch does not apply"}
    t0 = time.time()
    try:
        r = subprocess.run([os.path.join(V, "check"), prop, "--tier", "quick"], capture_output=True, text=True, cwd=V)
    finally:
        subprocess.run(["git", "-C", "/repo", "checkout", "--", "."])
    viol = [l for l in r.stdout.splitlines() if l.startswith("VIOLATION")]
    first = next((l.strip() for l in r.stdout.splitlines() if l.startswith("  ") and not l.startswith("  [")), "")
    return {"rc": r.returncode, "violations": len(viol), "first": first[:200], "wall_s": round(time.time() - t0)}


def main():
    only = sys.argv[1:] 
    out = {"seeded": {}, "refactors": {}}
    path = os.path.join(V, "seeded", "selftest.json")
    if os.path.exists(path):
        out = json.load(open(path))
    for d in sorted(glob.glob(os.path.join(V, "seeded", "C*"))):
        name = os.path.basename(d)
        if only and not any(name.startswith(o) for o in only):
            continue
        prop = name[:3]
        patch = os.path.join(d, "patch.diff" if os.path.exists(os.path.join(d, "patch.diff")) else "fix.diff")
        if name == "C09-zero-digit-revert":
            subprocess.run("git -C /repo show 32cf75c -- src/lib.rs | git -C /repo apply -R", shell=True)
            r = subprocess.run([os.path.join(V, "check"), "C09"], capture_output=True, text=True, cwd=V)
            subprocess.run(["git", "-C", "/repo", "checkout", "--", "."])
            out["seeded"][name] = {"rc": r.returncode, "violations": r.stdout.count("VIOLATION"), "expected": "VIOLATION"}
        else:
            res = run(patch, prop)
            res["expected"] = "VIOLATION"
            res["detected"] = res["rc"] == 1
            out["seeded"][name] = res
        print(name, out["seeded"][name], flush=True)
        json.dump(out, open(path, "w"), indent=1)
    for name, props in REFAC.items():
        if only and not any(name.startswith(o) for o in only):
            continue
        for p in props:
            res = run(os.path.join(V, "seeded", "refactors", name + ".diff"), p)
            res["expected"] = "exit 0"
            res["silent"] = res["rc"] == 0
            out["refactors"]["%s/%s" % (name, p)] = res
            print(name, p, res, flush=True)
            json.dump(out, open(path, "w"), indent=1)


if __name__ == "__main__":
    main()
