#!/bin/bash
# Re-confirms every seeded mutant in a scratch worktree: patch applies, existing suite passes,
# demo fails with the patch and passes without.  Writes /verif/seeded/<id>/confirm.txt
W=/tmp/confirm_wt
git -C /repo worktree remove --force $W 2>/dev/null
git -C /repo worktree add -q --detach $W HEAD || exit 2
cd $W
for d in /verif/seeded/*/; do
  id=$(basename $d)
  [ -f $d/patch.diff ] || continue
  [ -f $d/demo.rs ] || continue
  [ -n "$1" ] && [[ "$id" != *$1* ]] && continue
  git checkout -q -- . ; rm -f tests/demo.rs
  out=$d/confirm.txt
  echo "confirmation run $(date -u +%FT%TZ) on /repo $(git -C /repo rev-parse --short HEAD)" > $out
  if ! git apply $d/patch.diff; then echo "PATCH DOES NOT APPLY" >> $out; continue; fi
  s=$(cargo test --offline --lib --test uri 2>&1 | grep -E "^test result" | tr '\n' ' ')
  dt=$(cargo test --offline --doc 2>&1 | grep -E "^test result" | tr '\n' ' ')
  echo "existing suite with patch: $s $dt" >> $out
  cp $d/demo.rs tests/demo.rs
  r1=$(cargo test --offline --test demo 2>&1 | grep -E "^test result|^error" | head -2 | tr '\n' ' ')
  echo "demo with patch: $r1" >> $out
  git checkout -q -- src build.rs 2>/dev/null; git checkout -q -- .
  cp $d/demo.rs tests/demo.rs
  r2=$(cargo test --offline --test demo 2>&1 | grep -E "^test result|^error" | head -2 | tr '\n' ' ')
  echo "demo without patch: $r2" >> $out
  rm -f tests/demo.rs
  echo "$id: $(tail -3 $out | tr '\n' '|')"
done
cd /; git -C /repo worktree remove --force $W
