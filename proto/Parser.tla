------------------------------ MODULE Parser ------------------------------
(* Implementation-shaped model of the request-line half of
   Request::parse_with_config_and_uninit_headers at cursor-operation granularity. *)
EXTENDS Head
CONSTANTS Alpha, N, MULTI

GETSP == <<71, 69, 84, 32>>
POST == <<80, 79, 83, 84>>
H10 == <<72,84,84,80,47,49,46,48>>
H11 == <<72,84,84,80,47,49,46,49>>

RECURSIVE ScanTarget(_, _)
ScanTarget(b, c) == IF c < Len(b) /\ IsTarget(b[c + 1]) THEN ScanTarget(b, c + 1) ELSE c

(* --fair algorithm Parser {
  variables buf = <<>>, start = 0, cursor = 0, b = 0, res = "", err = "",
            method = NoSpan, path = NoSpan, version = NoVal, tstart = 0, tend = 0, k = 0,
            travel = 0;

  macro Next() {
    if (cursor < Len(buf)) { b := buf[cursor + 1]; cursor := cursor + 1; travel := travel + 1 }
    else { res := "P"; goto Fin }
  }
  macro Advance(n) { assert n <= Len(buf) - cursor; cursor := cursor + n; travel := travel + n }
  macro SliceSkip(sk) { assert sk <= cursor - start; start := cursor }
  macro Fail(e) { res := "E"; err := e; goto Fin }

  {
   Build: while (Len(buf) < N) {
            either { with (x \in Alpha) { buf := Append(buf, x) } } or { goto SkipEmpty }
          };
   \* ---- skip_empty_lines ----
   SkipEmpty:
     if (cursor >= Len(buf)) { res := "P"; goto Fin }
     else if (buf[cursor + 1] = CR) { Advance(1); goto SkipEmptyLF }
     else if (buf[cursor + 1] = LF) { Advance(1); goto SkipEmpty }
     else { start := cursor; goto Method };
   SkipEmptyLF: Next();
   SkipEmptyLF2: if (b # LF) { Fail("NewLine") } else { goto SkipEmpty };
   \* ---- parse_method: peek_n(4) fast paths ----
   Method:
     if (Len(buf) - cursor >= 4 /\ SubSeq(buf, cursor + 1, cursor + 4) = GETSP) {
        Advance(4); method := <<start, cursor - 1>>; SliceSkip(1); goto AfterMethod
     } else if (Len(buf) - cursor >= 4 /\ SubSeq(buf, cursor + 1, cursor + 4) = POST
                /\ Len(buf) - cursor > 4 /\ buf[cursor + 5] = SP) {
        \* peek_ahead(4): precondition 4 <= len
        assert 4 <= Len(buf) - cursor;
        Advance(5); method := <<start, cursor - 1>>; SliceSkip(1); goto AfterMethod
     } else { goto Token0 };
   Token0: Next();
   Token0b: if (~IsTchar(b)) { Fail("Token") };
   TokenLoop: Next();
   TokenLoop2:
     if (b = SP) { method := <<start, cursor - 1>>; SliceSkip(1); goto AfterMethod }
     else if (~IsTchar(b)) { Fail("Token") }
     else { goto TokenLoop };
   AfterMethod:
     if (MULTI) { goto Spaces1 } else { goto Uri };
   Spaces1:
     if (cursor >= Len(buf)) { res := "P"; goto Fin }
     else if (buf[cursor + 1] = SP) { Advance(1); goto Spaces1 }
     else { start := cursor; goto Uri };
   \* ---- parse_uri: scanner is one atomic step here (its internals live in Scan.tla) ----
   Uri:
     tstart := cursor;
     with (c2 = ScanTarget(buf, cursor)) { travel := travel + (c2 - cursor); cursor := c2 };
     tend := cursor;
   Uri2: Next();
   Uri3:
     if (b = SP) {
        if (tend = tstart) { Fail("Token") }
        else {
          \* str::from_utf8 on slice_skip(1)
          if (RunFrom([InitState("req", [Mq |-> FALSE, Mr |-> FALSE, A |-> FALSE, F |-> FALSE, S |-> FALSE, Iq |-> FALSE, Ir |-> FALSE], 0) EXCEPT !.ph = "T0"],
                      SubSeq(buf, tstart + 1, tend), 1).q = 0) {
             path := <<start, cursor - 1>>; SliceSkip(1)
          } else { Fail("Token") }
        }
     } else { Fail("Token") };
   AfterUri:
     if (MULTI) { goto Spaces2 } else { goto Version };
   Spaces2:
     if (cursor >= Len(buf)) { res := "P"; goto Fin }
     else if (buf[cursor + 1] = SP) { Advance(1); goto Spaces2 }
     else { start := cursor; goto Version };
   \* ---- parse_version: peek_n(8) or byte-wise ----
   Version:
     if (Len(buf) - cursor >= 8) {
        with (eight = SubSeq(buf, cursor + 1, cursor + 8)) {
          Advance(8);
          if (eight = H10) { version := 0 } else if (eight = H11) { version := 1 } else { Fail("Version") }
        }
     } else { k := 0; goto VerShort };
   VerDone: goto Newline;
   VerShort: Next();
   VerShort2:
     if (b # VerLit[k + 1]) { Fail("Version") }
     else { k := k + 1; if (k = 7) { res := "P"; goto Fin } else { goto VerShort } };
   \* ---- newline! ----
   Newline: Next();
   Newline2:
     if (b = CR) { goto NewlineLF } else if (b = LF) { start := cursor; goto LineDone } else { Fail("NewLine") };
   NewlineLF: Next();
   NewlineLF2: if (b # LF) { Fail("NewLine") } else { start := cursor };
   LineDone: res := "L";   \* request line complete; header block not modelled in this prototype
   Fin: skip;
  }
} *)
\* BEGIN TRANSLATION (chksum(pcal) = "7c28162a" /\ chksum(tla) = "e54c67cb")
VARIABLES pc, buf, start, cursor, b, res, err, method, path, version, tstart, 
          tend, k, travel

vars == << pc, buf, start, cursor, b, res, err, method, path, version, tstart, 
           tend, k, travel >>

Init == (* Global variables *)
        /\ buf = <<>>
        /\ start = 0
        /\ cursor = 0
        /\ b = 0
        /\ res = ""
        /\ err = ""
        /\ method = NoSpan
        /\ path = NoSpan
        /\ version = NoVal
        /\ tstart = 0
        /\ tend = 0
        /\ k = 0
        /\ travel = 0
        /\ pc = "Build"

Build == /\ pc = "Build"
         /\ IF Len(buf) < N
               THEN /\ \/ /\ \E x \in Alpha:
                               buf' = Append(buf, x)
                          /\ pc' = "Build"
                       \/ /\ pc' = "SkipEmpty"
                          /\ buf' = buf
               ELSE /\ pc' = "SkipEmpty"
                    /\ buf' = buf
         /\ UNCHANGED << start, cursor, b, res, err, method, path, version, 
                         tstart, tend, k, travel >>

SkipEmpty == /\ pc = "SkipEmpty"
             /\ IF cursor >= Len(buf)
                   THEN /\ res' = "P"
                        /\ pc' = "Fin"
                        /\ UNCHANGED << start, cursor, travel >>
                   ELSE /\ IF buf[cursor + 1] = CR
                              THEN /\ Assert(1 <= Len(buf) - cursor, 
                                             "Failure of assertion at line 24, column 22 of macro called at line 35, column 39.")
                                   /\ cursor' = cursor + 1
                                   /\ travel' = travel + 1
                                   /\ pc' = "SkipEmptyLF"
                                   /\ start' = start
                              ELSE /\ IF buf[cursor + 1] = LF
                                         THEN /\ Assert(1 <= Len(buf) - cursor, 
                                                        "Failure of assertion at line 24, column 22 of macro called at line 36, column 39.")
                                              /\ cursor' = cursor + 1
                                              /\ travel' = travel + 1
                                              /\ pc' = "SkipEmpty"
                                              /\ start' = start
                                         ELSE /\ start' = cursor
                                              /\ pc' = "Method"
                                              /\ UNCHANGED << cursor, travel >>
                        /\ res' = res
             /\ UNCHANGED << buf, b, err, method, path, version, tstart, tend, 
                             k >>

SkipEmptyLF == /\ pc = "SkipEmptyLF"
               /\ IF cursor < Len(buf)
                     THEN /\ b' = buf[cursor + 1]
                          /\ cursor' = cursor + 1
                          /\ travel' = travel + 1
                          /\ pc' = "SkipEmptyLF2"
                          /\ res' = res
                     ELSE /\ res' = "P"
                          /\ pc' = "Fin"
                          /\ UNCHANGED << cursor, b, travel >>
               /\ UNCHANGED << buf, start, err, method, path, version, tstart, 
                               tend, k >>

SkipEmptyLF2 == /\ pc = "SkipEmptyLF2"
                /\ IF b # LF
                      THEN /\ res' = "E"
                           /\ err' = "NewLine"
                           /\ pc' = "Fin"
                      ELSE /\ pc' = "SkipEmpty"
                           /\ UNCHANGED << res, err >>
                /\ UNCHANGED << buf, start, cursor, b, method, path, version, 
                                tstart, tend, k, travel >>

Method == /\ pc = "Method"
          /\ IF Len(buf) - cursor >= 4 /\ SubSeq(buf, cursor + 1, cursor + 4) = GETSP
                THEN /\ Assert(4 <= Len(buf) - cursor, 
                               "Failure of assertion at line 24, column 22 of macro called at line 43, column 9.")
                     /\ cursor' = cursor + 4
                     /\ travel' = travel + 4
                     /\ method' = <<start, cursor' - 1>>
                     /\ Assert(1 <= cursor' - start, 
                               "Failure of assertion at line 25, column 25 of macro called at line 43, column 54.")
                     /\ start' = cursor'
                     /\ pc' = "AfterMethod"
                ELSE /\ IF Len(buf) - cursor >= 4 /\ SubSeq(buf, cursor + 1, cursor + 4) = POST
                           /\ Len(buf) - cursor > 4 /\ buf[cursor + 5] = SP
                           THEN /\ Assert(4 <= Len(buf) - cursor, 
                                          "Failure of assertion at line 47, column 9.")
                                /\ Assert(5 <= Len(buf) - cursor, 
                                          "Failure of assertion at line 24, column 22 of macro called at line 48, column 9.")
                                /\ cursor' = cursor + 5
                                /\ travel' = travel + 5
                                /\ method' = <<start, cursor' - 1>>
                                /\ Assert(1 <= cursor' - start, 
                                          "Failure of assertion at line 25, column 25 of macro called at line 48, column 54.")
                                /\ start' = cursor'
                                /\ pc' = "AfterMethod"
                           ELSE /\ pc' = "Token0"
                                /\ UNCHANGED << start, cursor, method, travel >>
          /\ UNCHANGED << buf, b, res, err, path, version, tstart, tend, k >>

Token0 == /\ pc = "Token0"
          /\ IF cursor < Len(buf)
                THEN /\ b' = buf[cursor + 1]
                     /\ cursor' = cursor + 1
                     /\ travel' = travel + 1
                     /\ pc' = "Token0b"
                     /\ res' = res
                ELSE /\ res' = "P"
                     /\ pc' = "Fin"
                     /\ UNCHANGED << cursor, b, travel >>
          /\ UNCHANGED << buf, start, err, method, path, version, tstart, tend, 
                          k >>

Token0b == /\ pc = "Token0b"
           /\ IF ~IsTchar(b)
                 THEN /\ res' = "E"
                      /\ err' = "Token"
                      /\ pc' = "Fin"
                 ELSE /\ pc' = "TokenLoop"
                      /\ UNCHANGED << res, err >>
           /\ UNCHANGED << buf, start, cursor, b, method, path, version, 
                           tstart, tend, k, travel >>

TokenLoop == /\ pc = "TokenLoop"
             /\ IF cursor < Len(buf)
                   THEN /\ b' = buf[cursor + 1]
                        /\ cursor' = cursor + 1
                        /\ travel' = travel + 1
                        /\ pc' = "TokenLoop2"
                        /\ res' = res
                   ELSE /\ res' = "P"
                        /\ pc' = "Fin"
                        /\ UNCHANGED << cursor, b, travel >>
             /\ UNCHANGED << buf, start, err, method, path, version, tstart, 
                             tend, k >>

TokenLoop2 == /\ pc = "TokenLoop2"
              /\ IF b = SP
                    THEN /\ method' = <<start, cursor - 1>>
                         /\ Assert(1 <= cursor - start, 
                                   "Failure of assertion at line 25, column 25 of macro called at line 54, column 53.")
                         /\ start' = cursor
                         /\ pc' = "AfterMethod"
                         /\ UNCHANGED << res, err >>
                    ELSE /\ IF ~IsTchar(b)
                               THEN /\ res' = "E"
                                    /\ err' = "Token"
                                    /\ pc' = "Fin"
                               ELSE /\ pc' = "TokenLoop"
                                    /\ UNCHANGED << res, err >>
                         /\ UNCHANGED << start, method >>
              /\ UNCHANGED << buf, cursor, b, path, version, tstart, tend, k, 
                              travel >>

AfterMethod == /\ pc = "AfterMethod"
               /\ IF MULTI
                     THEN /\ pc' = "Spaces1"
                     ELSE /\ pc' = "Uri"
               /\ UNCHANGED << buf, start, cursor, b, res, err, method, path, 
                               version, tstart, tend, k, travel >>

Spaces1 == /\ pc = "Spaces1"
           /\ IF cursor >= Len(buf)
                 THEN /\ res' = "P"
                      /\ pc' = "Fin"
                      /\ UNCHANGED << start, cursor, travel >>
                 ELSE /\ IF buf[cursor + 1] = SP
                            THEN /\ Assert(1 <= Len(buf) - cursor, 
                                           "Failure of assertion at line 24, column 22 of macro called at line 61, column 39.")
                                 /\ cursor' = cursor + 1
                                 /\ travel' = travel + 1
                                 /\ pc' = "Spaces1"
                                 /\ start' = start
                            ELSE /\ start' = cursor
                                 /\ pc' = "Uri"
                                 /\ UNCHANGED << cursor, travel >>
                      /\ res' = res
           /\ UNCHANGED << buf, b, err, method, path, version, tstart, tend, k >>

Uri == /\ pc = "Uri"
       /\ tstart' = cursor
       /\ LET c2 == ScanTarget(buf, cursor) IN
            /\ travel' = travel + (c2 - cursor)
            /\ cursor' = c2
       /\ tend' = cursor'
       /\ pc' = "Uri2"
       /\ UNCHANGED << buf, start, b, res, err, method, path, version, k >>

Uri2 == /\ pc = "Uri2"
        /\ IF cursor < Len(buf)
              THEN /\ b' = buf[cursor + 1]
                   /\ cursor' = cursor + 1
                   /\ travel' = travel + 1
                   /\ pc' = "Uri3"
                   /\ res' = res
              ELSE /\ res' = "P"
                   /\ pc' = "Fin"
                   /\ UNCHANGED << cursor, b, travel >>
        /\ UNCHANGED << buf, start, err, method, path, version, tstart, tend, 
                        k >>

Uri3 == /\ pc = "Uri3"
        /\ IF b = SP
              THEN /\ IF tend = tstart
                         THEN /\ res' = "E"
                              /\ err' = "Token"
                              /\ pc' = "Fin"
                              /\ UNCHANGED << start, path >>
                         ELSE /\ IF RunFrom([InitState("req", [Mq |-> FALSE, Mr |-> FALSE, A |-> FALSE, F |-> FALSE, S |-> FALSE, Iq |-> FALSE, Ir |-> FALSE], 0) EXCEPT !.ph = "T0"],
                                            SubSeq(buf, tstart + 1, tend), 1).q = 0
                                    THEN /\ path' = <<start, cursor - 1>>
                                         /\ Assert(1 <= cursor - start, 
                                                   "Failure of assertion at line 25, column 25 of macro called at line 76, column 45.")
                                         /\ start' = cursor
                                         /\ pc' = "AfterUri"
                                         /\ UNCHANGED << res, err >>
                                    ELSE /\ res' = "E"
                                         /\ err' = "Token"
                                         /\ pc' = "Fin"
                                         /\ UNCHANGED << start, path >>
              ELSE /\ res' = "E"
                   /\ err' = "Token"
                   /\ pc' = "Fin"
                   /\ UNCHANGED << start, path >>
        /\ UNCHANGED << buf, cursor, b, method, version, tstart, tend, k, 
                        travel >>

AfterUri == /\ pc = "AfterUri"
            /\ IF MULTI
                  THEN /\ pc' = "Spaces2"
                  ELSE /\ pc' = "Version"
            /\ UNCHANGED << buf, start, cursor, b, res, err, method, path, 
                            version, tstart, tend, k, travel >>

Spaces2 == /\ pc = "Spaces2"
           /\ IF cursor >= Len(buf)
                 THEN /\ res' = "P"
                      /\ pc' = "Fin"
                      /\ UNCHANGED << start, cursor, travel >>
                 ELSE /\ IF buf[cursor + 1] = SP
                            THEN /\ Assert(1 <= Len(buf) - cursor, 
                                           "Failure of assertion at line 24, column 22 of macro called at line 84, column 39.")
                                 /\ cursor' = cursor + 1
                                 /\ travel' = travel + 1
                                 /\ pc' = "Spaces2"
                                 /\ start' = start
                            ELSE /\ start' = cursor
                                 /\ pc' = "Version"
                                 /\ UNCHANGED << cursor, travel >>
                      /\ res' = res
           /\ UNCHANGED << buf, b, err, method, path, version, tstart, tend, k >>

Version == /\ pc = "Version"
           /\ IF Len(buf) - cursor >= 8
                 THEN /\ LET eight == SubSeq(buf, cursor + 1, cursor + 8) IN
                           /\ Assert(8 <= Len(buf) - cursor, 
                                     "Failure of assertion at line 24, column 22 of macro called at line 90, column 11.")
                           /\ cursor' = cursor + 8
                           /\ travel' = travel + 8
                           /\ IF eight = H10
                                 THEN /\ version' = 0
                                      /\ pc' = "VerDone"
                                      /\ UNCHANGED << res, err >>
                                 ELSE /\ IF eight = H11
                                            THEN /\ version' = 1
                                                 /\ pc' = "VerDone"
                                                 /\ UNCHANGED << res, err >>
                                            ELSE /\ res' = "E"
                                                 /\ err' = "Version"
                                                 /\ pc' = "Fin"
                                                 /\ UNCHANGED version
                      /\ k' = k
                 ELSE /\ k' = 0
                      /\ pc' = "VerShort"
                      /\ UNCHANGED << cursor, res, err, version, travel >>
           /\ UNCHANGED << buf, start, b, method, path, tstart, tend >>

VerDone == /\ pc = "VerDone"
           /\ pc' = "Newline"
           /\ UNCHANGED << buf, start, cursor, b, res, err, method, path, 
                           version, tstart, tend, k, travel >>

VerShort == /\ pc = "VerShort"
            /\ IF cursor < Len(buf)
                  THEN /\ b' = buf[cursor + 1]
                       /\ cursor' = cursor + 1
                       /\ travel' = travel + 1
                       /\ pc' = "VerShort2"
                       /\ res' = res
                  ELSE /\ res' = "P"
                       /\ pc' = "Fin"
                       /\ UNCHANGED << cursor, b, travel >>
            /\ UNCHANGED << buf, start, err, method, path, version, tstart, 
                            tend, k >>

VerShort2 == /\ pc = "VerShort2"
             /\ IF b # VerLit[k + 1]
                   THEN /\ res' = "E"
                        /\ err' = "Version"
                        /\ pc' = "Fin"
                        /\ k' = k
                   ELSE /\ k' = k + 1
                        /\ IF k' = 7
                              THEN /\ res' = "P"
                                   /\ pc' = "Fin"
                              ELSE /\ pc' = "VerShort"
                                   /\ res' = res
                        /\ err' = err
             /\ UNCHANGED << buf, start, cursor, b, method, path, version, 
                             tstart, tend, travel >>

Newline == /\ pc = "Newline"
           /\ IF cursor < Len(buf)
                 THEN /\ b' = buf[cursor + 1]
                      /\ cursor' = cursor + 1
                      /\ travel' = travel + 1
                      /\ pc' = "Newline2"
                      /\ res' = res
                 ELSE /\ res' = "P"
                      /\ pc' = "Fin"
                      /\ UNCHANGED << cursor, b, travel >>
           /\ UNCHANGED << buf, start, err, method, path, version, tstart, 
                           tend, k >>

Newline2 == /\ pc = "Newline2"
            /\ IF b = CR
                  THEN /\ pc' = "NewlineLF"
                       /\ UNCHANGED << start, res, err >>
                  ELSE /\ IF b = LF
                             THEN /\ start' = cursor
                                  /\ pc' = "LineDone"
                                  /\ UNCHANGED << res, err >>
                             ELSE /\ res' = "E"
                                  /\ err' = "NewLine"
                                  /\ pc' = "Fin"
                                  /\ start' = start
            /\ UNCHANGED << buf, cursor, b, method, path, version, tstart, 
                            tend, k, travel >>

NewlineLF == /\ pc = "NewlineLF"
             /\ IF cursor < Len(buf)
                   THEN /\ b' = buf[cursor + 1]
                        /\ cursor' = cursor + 1
                        /\ travel' = travel + 1
                        /\ pc' = "NewlineLF2"
                        /\ res' = res
                   ELSE /\ res' = "P"
                        /\ pc' = "Fin"
                        /\ UNCHANGED << cursor, b, travel >>
             /\ UNCHANGED << buf, start, err, method, path, version, tstart, 
                             tend, k >>

NewlineLF2 == /\ pc = "NewlineLF2"
              /\ IF b # LF
                    THEN /\ res' = "E"
                         /\ err' = "NewLine"
                         /\ pc' = "Fin"
                         /\ start' = start
                    ELSE /\ start' = cursor
                         /\ pc' = "LineDone"
                         /\ UNCHANGED << res, err >>
              /\ UNCHANGED << buf, cursor, b, method, path, version, tstart, 
                              tend, k, travel >>

LineDone == /\ pc = "LineDone"
            /\ res' = "L"
            /\ pc' = "Fin"
            /\ UNCHANGED << buf, start, cursor, b, err, method, path, version, 
                            tstart, tend, k, travel >>

Fin == /\ pc = "Fin"
       /\ TRUE
       /\ pc' = "Done"
       /\ UNCHANGED << buf, start, cursor, b, res, err, method, path, version, 
                       tstart, tend, k, travel >>

(* Allow infinite stuttering to prevent deadlock on termination. *)
Terminating == pc = "Done" /\ UNCHANGED vars

Next == Build \/ SkipEmpty \/ SkipEmptyLF \/ SkipEmptyLF2 \/ Method
           \/ Token0 \/ Token0b \/ TokenLoop \/ TokenLoop2 \/ AfterMethod
           \/ Spaces1 \/ Uri \/ Uri2 \/ Uri3 \/ AfterUri \/ Spaces2 \/ Version
           \/ VerDone \/ VerShort \/ VerShort2 \/ Newline \/ Newline2
           \/ NewlineLF \/ NewlineLF2 \/ LineDone \/ Fin
           \/ Terminating

Spec == /\ Init /\ [][Next]_vars
        /\ WF_vars(Next)

Termination == <>(pc = "Done")

\* END TRANSLATION 
 
=============================================================================
