------------------------------ MODULE Head ------------------------------
(* Prototype of the reference automaton: request, response, header block, chunk size. *)
EXTENDS Naturals, Sequences, TLC, FiniteSets

CR == 13
LF == 10
SP == 32
HT == 9
COLON == 58
SEMI == 59
Inf == 100000

TcharSet == (48..57) \cup (65..90) \cup (97..122) \cup {33,35,36,37,38,39,42,43,45,46,94,95,96,124,126}
TcharTab == [b \in 0..255 |-> b \in TcharSet]
IsTchar(b) == TcharTab[b]
IsTarget(b) == (b >= 33 /\ b <= 126) \/ b >= 128
IsValue(b) == b = 9 \/ (b >= 32 /\ b <= 126) \/ b >= 128
IsReason(b) == b = 9 \/ (b >= 32 /\ b <= 126) \/ b >= 128
IsWs(b) == b = SP \/ b = HT
IsDigit(b) == b >= 48 /\ b <= 57
IsHex(b) == IsDigit(b) \/ (b >= 65 /\ b <= 70) \/ (b >= 97 /\ b <= 102)
HexVal(b) == IF IsDigit(b) THEN b - 48 ELSE IF b >= 97 THEN b - 87 ELSE b - 55

VerLit == <<72,84,84,80,47,49,46>>  \* "HTTP/1."

(* strict UTF-8 DFA; states: 0 accept, 1..3 = continuation bytes still needed (plain),
   4 = after E0, 5 = after ED, 6 = after F0, 7 = after F4, 8 = dead *)
Utf8Step(q, b) ==
  IF q = 8 THEN 8
  ELSE IF q = 0 THEN
       IF b < 128 THEN 0
       ELSE IF b >= 194 /\ b <= 223 THEN 1
       ELSE IF b = 224 THEN 4
       ELSE IF (b >= 225 /\ b <= 236) \/ b = 238 \/ b = 239 THEN 2
       ELSE IF b = 237 THEN 5
       ELSE IF b = 240 THEN 6
       ELSE IF b >= 241 /\ b <= 243 THEN 3
       ELSE IF b = 244 THEN 7
       ELSE 8
  ELSE IF q = 1 THEN (IF b >= 128 /\ b <= 191 THEN 0 ELSE 8)
  ELSE IF q = 2 THEN (IF b >= 128 /\ b <= 191 THEN 1 ELSE 8)
  ELSE IF q = 3 THEN (IF b >= 128 /\ b <= 191 THEN 2 ELSE 8)
  ELSE IF q = 4 THEN (IF b >= 160 /\ b <= 191 THEN 1 ELSE 8)
  ELSE IF q = 5 THEN (IF b >= 128 /\ b <= 159 THEN 1 ELSE 8)
  ELSE IF q = 6 THEN (IF b >= 144 /\ b <= 191 THEN 2 ELSE 8)
  ELSE (IF b >= 128 /\ b <= 143 THEN 2 ELSE 8)

NoSpan == <<0,0>>
NoVal == 65535

\* cfg: [Mq, Mr, A, F, S, Iq, Ir]; hc = effective header config [A,F,S,I]
HdrCfg(kind, cfg) ==
  IF kind = "req" THEN [A |-> FALSE, F |-> FALSE, S |-> cfg.S, I |-> cfg.Iq]
  ELSE IF kind = "resp" THEN [A |-> cfg.A, F |-> cfg.F, S |-> cfg.S, I |-> cfg.Ir]
  ELSE [A |-> FALSE, F |-> FALSE, S |-> FALSE, I |-> FALSE]

InitState(kind, cfg, cap) ==
  [ kind |-> kind, M |-> IF kind = "req" THEN cfg.Mq ELSE IF kind = "resp" THEN cfg.Mr ELSE FALSE,
    hc |-> HdrCfg(kind, cfg), cap |-> cap,
    ph |-> IF kind = "hdrs" THEN "HLINE" ELSE IF kind = "chunk" THEN "SIZE" ELSE "LEAD",
    pos |-> 0, k |-> 0, t0 |-> 0, lv |-> 0, q |-> 0, obs |-> FALSE, err |-> "",
    st |-> "P", n |-> 0, hstart |-> 0,
    method |-> NoSpan, path |-> NoSpan, version |-> NoVal, code |-> NoVal,
    reason |-> NoSpan, hasreason |-> FALSE,
    name |-> NoSpan, hdrs |-> <<>>, digits |-> <<>> ]

Fail(s, e) == [s EXCEPT !.st = "E", !.err = e, !.ph = "DONE"]
Done(s) == [s EXCEPT !.st = "C", !.n = s.pos + 1 - (IF s.kind = "hdrs" THEN 0 ELSE 0), !.ph = "DONE"]

Store(s, vs, ve) ==
  IF Len(s.hdrs) >= s.cap THEN Fail(s, "TooManyHeaders")
  ELSE [s EXCEPT !.hdrs = Append(@, <<s.name, <<vs, ve>> >>), !.ph = "HLINE"]

Invalid(s, e, b) ==
  IF ~s.hc.I THEN Fail(s, e)
  ELSE IF b = CR THEN [s EXCEPT !.ph = "IGN_CR", !.err = e]
  ELSE IF b = LF THEN [s EXCEPT !.ph = "HLINE"]
  ELSE IF b = 0 THEN Fail(s, e)
  ELSE [s EXCEPT !.ph = "IGN", !.err = e]

ChunkErr(s) == Fail(s, "InvalidChunkSize")

RECURSIVE StepPh(_, _)
StepPh(s, b) ==
  LET p == s.pos IN
  CASE s.ph = "LEAD" ->
         IF b = CR THEN [s EXCEPT !.ph = "LEAD_CR"]
         ELSE IF b = LF THEN s
         ELSE IF s.kind = "req" THEN
              (IF IsTchar(b) THEN [s EXCEPT !.ph = "METHOD", !.t0 = p] ELSE Fail(s, "Token"))
         ELSE StepPh([s EXCEPT !.ph = "VER", !.k = 0], b)
    [] s.ph = "LEAD_CR" -> IF b = LF THEN [s EXCEPT !.ph = "LEAD"] ELSE Fail(s, "NewLine")
    [] s.ph = "METHOD" ->
         IF IsTchar(b) THEN s
         ELSE IF b = SP THEN [s EXCEPT !.method = <<s.t0, p>>, !.ph = "T0"]
         ELSE Fail(s, "Token")
    [] s.ph = "T0" ->
         IF b = SP /\ s.M THEN s
         ELSE IF IsTarget(b) THEN [s EXCEPT !.ph = "TARGET", !.t0 = p, !.q = Utf8Step(0, b)]
         ELSE Fail(s, "Token")
    [] s.ph = "TARGET" ->
         IF IsTarget(b) THEN [s EXCEPT !.q = Utf8Step(s.q, b)]
         ELSE IF b = SP THEN (IF s.q = 0 THEN [s EXCEPT !.path = <<s.t0, p>>, !.ph = "VER", !.k = 0]
                              ELSE Fail(s, "Token"))
         ELSE Fail(s, "Token")
    [] s.ph = "VER" ->
         IF s.k = 0 /\ b = SP /\ s.M /\ s.kind = "req" THEN s
         ELSE IF s.k < 7 THEN (IF b = VerLit[s.k + 1] THEN [s EXCEPT !.k = @ + 1] ELSE Fail(s, "Version"))
         ELSE IF b = 48 \/ b = 49 THEN
              [s EXCEPT !.version = b - 48, !.ph = IF s.kind = "req" THEN "REQ_EOL" ELSE "RSP1"]
         ELSE Fail(s, "Version")
    [] s.ph = "REQ_EOL" ->
         IF b = CR THEN [s EXCEPT !.ph = "REQ_EOL_CR"]
         ELSE IF b = LF THEN [s EXCEPT !.ph = "HLINE", !.hstart = p + 1]
         ELSE Fail(s, "NewLine")
    [] s.ph = "REQ_EOL_CR" -> IF b = LF THEN [s EXCEPT !.ph = "HLINE", !.hstart = p + 1] ELSE Fail(s, "NewLine")
    [] s.ph = "RSP1" -> IF b = SP THEN [s EXCEPT !.ph = "C0", !.k = 0] ELSE Fail(s, "Version")
    [] s.ph = "C0" ->
         IF s.k = 0 /\ b = SP /\ s.M THEN s
         ELSE IF IsDigit(b) THEN
              (IF s.k < 2 THEN [s EXCEPT !.k = @ + 1, !.t0 = IF s.k = 0 THEN (b - 48) * 100 ELSE s.t0 + (b - 48) * 10]
               ELSE [s EXCEPT !.code = s.t0 + (b - 48), !.ph = "AFTER_CODE"])
         ELSE Fail(s, "Status")
    [] s.ph = "AFTER_CODE" ->
         IF b = SP THEN [s EXCEPT !.ph = IF s.M THEN "RSKIP" ELSE "REASON", !.t0 = p + 1, !.obs = FALSE]
         ELSE IF b = CR THEN [s EXCEPT !.ph = "AC_CR"]
         ELSE IF b = LF THEN [s EXCEPT !.hasreason = TRUE, !.reason = NoSpan, !.ph = "HLINE", !.hstart = p + 1]
         ELSE Fail(s, "Status")
    [] s.ph = "AC_CR" ->
         IF b = LF THEN [s EXCEPT !.hasreason = TRUE, !.reason = NoSpan, !.ph = "HLINE", !.hstart = p + 1]
         ELSE Fail(s, "Status")
    [] s.ph = "RSKIP" ->
         IF b = SP THEN s ELSE StepPh([s EXCEPT !.ph = "REASON", !.t0 = p], b)
    [] s.ph = "REASON" ->
         IF b = CR THEN [s EXCEPT !.ph = "REASON_CR"]
         ELSE IF b = LF THEN [s EXCEPT !.hasreason = TRUE, !.reason = IF s.obs THEN NoSpan ELSE <<s.t0, p>>,
                                       !.ph = "HLINE", !.hstart = p + 1]
         ELSE IF ~IsReason(b) THEN Fail(s, "Status")
         ELSE IF b >= 128 THEN [s EXCEPT !.obs = TRUE]
         ELSE s
    [] s.ph = "REASON_CR" ->
         IF b = LF THEN [s EXCEPT !.hasreason = TRUE, !.reason = IF s.obs THEN NoSpan ELSE <<s.t0, p - 1>>,
                                  !.ph = "HLINE", !.hstart = p + 1]
         ELSE Fail(s, "Status")
    [] s.ph = "HLINE" ->
         IF b = CR THEN [s EXCEPT !.ph = "HEND_CR"]
         ELSE IF b = LF THEN Done(s)
         ELSE IF IsTchar(b) THEN [s EXCEPT !.ph = "NAME", !.t0 = p]
         ELSE IF s.hc.S /\ Len(s.hdrs) = 0 /\ IsWs(b) THEN s
         ELSE Invalid(s, "HeaderName", b)
    [] s.ph = "HEND_CR" -> IF b = LF THEN Done(s) ELSE Fail(s, "NewLine")
    [] s.ph = "NAME" ->
         IF IsTchar(b) THEN s
         ELSE IF b = COLON THEN [s EXCEPT !.name = <<s.t0, p>>, !.ph = "OWS"]
         ELSE IF s.hc.A /\ IsWs(b) THEN [s EXCEPT !.name = <<s.t0, p>>, !.ph = "NAME_WS"]
         ELSE Invalid(s, "HeaderName", b)
    [] s.ph = "NAME_WS" ->
         IF IsWs(b) THEN s
         ELSE IF b = COLON THEN [s EXCEPT !.ph = "OWS"]
         ELSE Invalid(s, "HeaderName", b)
    [] s.ph = "OWS" ->
         IF IsWs(b) THEN s
         ELSE IF IsValue(b) THEN [s EXCEPT !.ph = "VALUE", !.t0 = p, !.lv = p + 1]
         ELSE IF b = CR THEN [s EXCEPT !.ph = "OWS_CR"]
         ELSE IF b = LF THEN (IF s.hc.F THEN [s EXCEPT !.ph = "FOLD_E", !.t0 = p] ELSE Store(s, p, p))
         ELSE Invalid(s, "HeaderValue", b)
    [] s.ph = "OWS_CR" ->
         IF b = LF THEN (IF s.hc.F THEN [s EXCEPT !.ph = "FOLD_E", !.t0 = p - 1] ELSE Store(s, p - 1, p - 1))
         ELSE Fail(s, "HeaderValue")
    [] s.ph = "FOLD_E" ->
         IF IsWs(b) THEN [s EXCEPT !.ph = "OWS"]
         ELSE LET s2 == Store(s, s.t0, s.t0) IN IF s2.st = "E" THEN s2 ELSE StepPh(s2, b)
    [] s.ph = "VALUE" ->
         IF IsValue(b) THEN (IF IsWs(b) THEN s ELSE [s EXCEPT !.lv = p + 1])
         ELSE IF b = CR THEN [s EXCEPT !.ph = "VAL_CR"]
         ELSE IF b = LF THEN (IF s.hc.F THEN [s EXCEPT !.ph = "FOLD_V"] ELSE Store(s, s.t0, s.lv))
         ELSE Invalid(s, "HeaderValue", b)
    [] s.ph = "VAL_CR" ->
         IF b = LF THEN (IF s.hc.F THEN [s EXCEPT !.ph = "FOLD_V"] ELSE Store(s, s.t0, s.lv))
         ELSE Fail(s, "HeaderValue")
    [] s.ph = "FOLD_V" ->
         IF IsWs(b) THEN [s EXCEPT !.ph = "VALUE"]
         ELSE LET s2 == Store(s, s.t0, s.lv) IN IF s2.st = "E" THEN s2 ELSE StepPh(s2, b)
    [] s.ph = "IGN" -> Invalid(s, s.err, b)
    [] s.ph = "IGN_CR" -> IF b = LF THEN [s EXCEPT !.ph = "HLINE"] ELSE Fail(s, s.err)
    \* ---- chunk size ----
    [] s.ph = "SIZE" ->
         IF IsHex(b) THEN (IF s.k > 15 THEN ChunkErr(s) ELSE [s EXCEPT !.k = @ + 1, !.digits = Append(@, HexVal(b))])
         ELSE IF s.k = 0 THEN ChunkErr(s)      \* property C09: at least one digit
         ELSE IF b = CR THEN [s EXCEPT !.ph = "CCR"]
         ELSE IF b = SEMI THEN [s EXCEPT !.ph = "EXT"]
         ELSE IF IsWs(b) THEN [s EXCEPT !.ph = "LWS"]
         ELSE ChunkErr(s)
    [] s.ph = "LWS" ->
         IF IsWs(b) THEN s
         ELSE IF b = SEMI THEN [s EXCEPT !.ph = "EXT"]
         ELSE IF b = CR THEN [s EXCEPT !.ph = "CCR"]
         ELSE ChunkErr(s)
    [] s.ph = "EXT" -> IF b = CR THEN [s EXCEPT !.ph = "CCR"] ELSE s
    [] s.ph = "CCR" -> IF b = LF THEN Done(s) ELSE ChunkErr(s)
    [] s.ph = "DONE" -> s

Step(s, b) == IF s.ph = "DONE" THEN s ELSE [StepPh(s, b) EXCEPT !.pos = s.pos + 1]

RECURSIVE RunFrom(_, _, _)
RunFrom(s, buf, i) == IF i > Len(buf) THEN s ELSE RunFrom(Step(s, buf[i]), buf, i + 1)
Run(kind, cfg, cap, buf) == RunFrom(InitState(kind, cfg, cap), buf, 1)

Project(s) == [kind |-> s.kind, st |-> s.st, n |-> s.n, err |-> IF s.st = "E" THEN s.err ELSE "",
               method |-> s.method, path |-> s.path, version |-> s.version, code |-> s.code,
               hasreason |-> s.hasreason, reason |-> s.reason,
               hdrs |-> s.hdrs, digits |-> s.digits, ph |-> s.ph]
=============================================================================
