------------------------------ MODULE StageB ------------------------------
EXTENDS Head, Json, IOUtils
CONSTANTS Ext1, Ext2
Seeds == ndJsonDeserialize("seeds.ndjson")
VARIABLES s, buf, cfg, ext
Init == \E i \in 1..Len(Seeds) : /\ buf = Seeds[i].buf /\ cfg = Seeds[i].cfg
                                /\ s = Run(Seeds[i].kind, Seeds[i].cfg, Seeds[i].cap, Seeds[i].buf)
                                /\ ext = 0
Next == /\ s.ph # "DONE" /\ cfg' = cfg
        /\ \/ ext = 0 /\ \E b \in Ext1 : s' = Step(s, b) /\ buf' = Append(buf, b) /\ ext' = 1
           \/ ext = 1 /\ \E b \in Ext2 : s' = Step(s, b) /\ buf' = Append(buf, b) /\ ext' = 2
Spec == Init /\ [][Next]_<<s, buf, cfg, ext>>
Emit == PrintT(<<"V", ToJson([buf |-> buf, r |-> Project(s), cfg |-> cfg, cap |-> s.cap])>>)
=============================================================================
