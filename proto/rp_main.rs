use serde_json::Value;
use std::io::{self, BufRead};
use std::mem::MaybeUninit;
extern "C" { fn mmap(a: *mut u8, l: usize, p: i32, f: i32, fd: i32, o: i64) -> *mut u8; fn mprotect(a: *mut u8, l: usize, p: i32) -> i32; }
fn guard_region() -> *mut u8 { unsafe { let p = mmap(std::ptr::null_mut(), 3*4096, 3, 0x22, -1, 0); assert!(p as isize != -1); assert_eq!(mprotect(p, 4096, 0), 0); assert_eq!(mprotect(p.add(2*4096), 4096, 0), 0); p.add(4096) } }

fn span(v: &Value) -> (usize, usize) { (v[0].as_u64().unwrap() as usize, v[1].as_u64().unwrap() as usize) }

fn off(buf: &[u8], s: &[u8]) -> Option<(usize, usize)> {
    let b = buf.as_ptr() as usize; let p = s.as_ptr() as usize;
    if p >= b && p + s.len() <= b + buf.len() { Some((p - b, p - b + s.len())) } else { None }
}

fn main() {
    let stdin = io::stdin();
    let mut n = 0u64; let mut bad = 0u64; let page = guard_region();
    for line in stdin.lock().lines() {
        let line = line.unwrap();
        if !line.starts_with("<<\"V\", ") { continue; }
        let inner: String = serde_json::from_str(&line[7..line.len() - 2]).unwrap();
        let v: Value = serde_json::from_str(&inner).unwrap();
        n += 1;
        let bufv: Vec<u8> = v["buf"].as_array().unwrap().iter().map(|x| x.as_u64().unwrap() as u8).collect();
        // place flush against the trailing guard page (odd n) or right after the leading guard page (even n)
        let buf: &[u8] = unsafe { let dst = if n % 2 == 1 { page.add(4096 - bufv.len()) } else { page }; std::ptr::copy_nonoverlapping(bufv.as_ptr(), dst, bufv.len()); std::slice::from_raw_parts(dst, bufv.len()) };
        let r = &v["r"]; let kind = r["kind"].as_str().unwrap();
        let c = &v["cfg"]; let cap = v["cap"].as_u64().unwrap() as usize; let cap = if cap >= 100000 { 64 } else { cap };
        let mut cfg = httparse::ParserConfig::default();
        cfg.allow_multiple_spaces_in_request_line_delimiters(c["Mq"].as_bool().unwrap());
        cfg.allow_multiple_spaces_in_response_status_delimiters(c["Mr"].as_bool().unwrap());
        cfg.allow_spaces_after_header_name_in_responses(c["A"].as_bool().unwrap());
        cfg.allow_obsolete_multiline_headers_in_responses(c["F"].as_bool().unwrap());
        cfg.allow_space_before_first_header_name(c["S"].as_bool().unwrap());
        cfg.ignore_invalid_headers_in_requests(c["Iq"].as_bool().unwrap());
        cfg.ignore_invalid_headers_in_responses(c["Ir"].as_bool().unwrap());
        let est = r["st"].as_str().unwrap(); let en = r["n"].as_u64().unwrap() as usize; let eerr = r["err"].as_str().unwrap();
        let mut hs = vec![httparse::EMPTY_HEADER; cap];
        let mut msgs: Vec<String> = vec![];
        let mut chk_hdrs = |got: &[httparse::Header], msgs: &mut Vec<String>| {
            let eh = r["hdrs"].as_array().unwrap();
            if eh.len() != got.len() { msgs.push(format!("hdr count {} vs {}", got.len(), eh.len())); return; }
            for (i, h) in got.iter().enumerate() {
                let (ns, ne) = span(&eh[i][0]); let (vs, ve) = span(&eh[i][1]);
                if off(&buf, h.name.as_bytes()) != Some((ns, ne)) { msgs.push(format!("hdr {} name {:?} vs {:?}", i, off(&buf, h.name.as_bytes()), (ns, ne))); }
                if vs == ve { if !h.value.is_empty() { msgs.push(format!("hdr {} value nonempty", i)); } }
                else if off(&buf, h.value) != Some((vs, ve)) { msgs.push(format!("hdr {} value {:?} vs {:?}", i, off(&buf, h.value), (vs, ve))); }
            }
        };
        let stat = |res: Result<httparse::Status<usize>, httparse::Error>| -> (String, usize, String) {
            match res { Ok(httparse::Status::Complete(n)) => ("C".into(), n, "".into()), Ok(httparse::Status::Partial) => ("P".into(), 0, "".into()),
                Err(e) => ("E".into(), 0, format!("{:?}", e)) } };
        match kind {
            "req" => {
                let mut req = httparse::Request::new(&mut hs);
                let (st, nn, err) = stat(cfg.parse_request(&mut req, &buf));
                {
                    // uninit entry with poison array; must agree, and leave headers untouched unless Complete
                    let mut un: Vec<MaybeUninit<httparse::Header>> = (0..cap).map(|_| MaybeUninit::uninit()).collect();
                    let mut empty: [httparse::Header; 0] = [];
                    let mut req2 = httparse::Request::new(&mut empty);
                    let (st2, nn2, err2) = stat(cfg.parse_request_with_uninit_headers(&mut req2, &buf, &mut un));
                    if (st2.clone(), nn2, err2.clone()) != (st.clone(), nn, err.clone()) { msgs.push(format!("uninit entry disagrees {} {} {}", st2, nn2, err2)); }
                    if st2 == "C" { if req2.headers.len() != req.headers.len() || req2.headers.iter().zip(req.headers.iter()).any(|(a,b)| a != b) || req2.method != req.method || req2.path != req.path || req2.version != req.version { msgs.push("uninit fields differ".into()); } }
                    else if req2.headers.len() != 0 { msgs.push("uninit entry touched headers".into()); }
                }
                if st != "C" && req.headers.len() != cap { msgs.push(format!("headers len {} after non-complete, cap {}", req.headers.len(), cap)); }
                if st != est || nn != en || err != eerr { msgs.push(format!("status {} {} {} vs {} {} {}", st, nn, err, est, en, eerr)); }
                else if st == "C" {
                    if req.method.map(|m| off(&buf, m.as_bytes())) != Some(Some(span(&r["method"]))) { msgs.push("method".into()); }
                    if req.path.map(|m| off(&buf, m.as_bytes())) != Some(Some(span(&r["path"]))) { msgs.push("path".into()); }
                    if req.version.map(|x| x as u64) != r["version"].as_u64() { msgs.push("version".into()); }
                    chk_hdrs(req.headers, &mut msgs);
                } else if st == "P" {
                    if let Some(m) = req.method { if off(&buf, m.as_bytes()) != Some(span(&r["method"])) { msgs.push("p-method".into()); } } else if span(&r["method"]) != (0,0) { msgs.push("p-method-none".into()); }
                    if let Some(m) = req.path { if off(&buf, m.as_bytes()) != Some(span(&r["path"])) { msgs.push("p-path".into()); } } else if span(&r["path"]) != (0,0) { msgs.push("p-path-none".into()); }
                    if let Some(x) = req.version { if x as u64 != r["version"].as_u64().unwrap() { msgs.push("p-version".into()); } } else if r["version"].as_u64().unwrap() != 65535 { msgs.push("p-version-none".into()); }
                }
            }
            "resp2" => {}
            "resp" => {
                let mut resp = httparse::Response::new(&mut hs);
                let (st, nn, err) = stat(cfg.parse_response(&mut resp, &buf));
                {
                    let mut un: Vec<MaybeUninit<httparse::Header>> = (0..cap).map(|_| MaybeUninit::uninit()).collect();
                    let mut empty: [httparse::Header; 0] = [];
                    let mut resp2 = httparse::Response::new(&mut empty);
                    let (st2, nn2, err2) = stat(cfg.parse_response_with_uninit_headers(&mut resp2, &buf, &mut un));
                    if (st2.clone(), nn2, err2.clone()) != (st.clone(), nn, err.clone()) { msgs.push(format!("uninit entry disagrees {} {} {}", st2, nn2, err2)); }
                    if st2 == "C" { if resp2.headers.len() != resp.headers.len() || resp2.headers.iter().zip(resp.headers.iter()).any(|(a,b)| a != b) || resp2.reason != resp.reason || resp2.code != resp.code || resp2.version != resp.version { msgs.push("uninit fields differ".into()); } }
                    else if resp2.headers.len() != 0 { msgs.push("uninit entry touched headers".into()); }
                }
                if st != "C" && resp.headers.len() != cap { msgs.push(format!("headers len {} after non-complete, cap {}", resp.headers.len(), cap)); }
                if st != est || nn != en || err != eerr { msgs.push(format!("status {} {} {} vs {} {} {}", st, nn, err, est, en, eerr)); }
                else if st == "C" {
                    if resp.version.map(|x| x as u64) != r["version"].as_u64() { msgs.push("version".into()); }
                    if resp.code.map(|x| x as u64) != r["code"].as_u64() { msgs.push("code".into()); }
                    let (rs, re) = span(&r["reason"]);
                    match resp.reason { None => msgs.push("reason none".into()),
                        Some(x) => if rs == re { if !x.is_empty() { msgs.push(format!("reason {:?} expected empty", x)); } }
                                   else if off(&buf, x.as_bytes()) != Some((rs, re)) { msgs.push(format!("reason {:?} vs {:?}", off(&buf, x.as_bytes()), (rs, re))); } }
                    chk_hdrs(resp.headers, &mut msgs);
                } else if st == "P" {
                    if resp.version.map(|x| x as u64).unwrap_or(65535) != r["version"].as_u64().unwrap() { msgs.push("p-version".into()); }
                    if resp.code.map(|x| x as u64).unwrap_or(65535) != r["code"].as_u64().unwrap() { msgs.push("p-code".into()); }
                    if resp.reason.is_some() != r["hasreason"].as_bool().unwrap() { msgs.push("p-hasreason".into()); }
                }
            }
            "hdrs" => {
                match httparse::parse_headers(&buf, &mut hs) {
                    Ok(httparse::Status::Complete((nn, got))) => { if est != "C" || nn != en { msgs.push(format!("status C {} vs {} {}", nn, est, en)); } else { chk_hdrs(got, &mut msgs); } }
                    Ok(httparse::Status::Partial) => if est != "P" { msgs.push(format!("status P vs {} {}", est, eerr)); },
                    Err(e) => if est != "E" || format!("{:?}", e) != eerr { msgs.push(format!("status E {:?} vs {} {}", e, est, eerr)); },
                }
            }
            "chunk" => {
                match httparse::parse_chunk_size(&buf) {
                    Ok(httparse::Status::Complete((nn, size))) => {
                        let d: Vec<u64> = r["digits"].as_array().unwrap().iter().map(|x| x.as_u64().unwrap()).collect();
                        let mut hex: String = d.iter().map(|x| std::char::from_digit(*x as u32, 16).unwrap()).collect::<String>().trim_start_matches('0').to_string();
                        if hex.is_empty() { hex = "0".into(); }
                        if est != "C" || nn != en || format!("{:x}", size) != hex { msgs.push(format!("chunk C {} {:x} vs {} {} {}", nn, size, est, en, hex)); } }
                    Ok(httparse::Status::Partial) => if est != "P" { msgs.push(format!("chunk P vs {}", est)); },
                    Err(_) => if est != "E" { msgs.push(format!("chunk E vs {} {}", est, en)); },
                }
            }
            _ => unreachable!(),
        }
        if !msgs.is_empty() { bad += 1; if kind != "chunk" && bad <= 100000 { println!("MISMATCH kind={} cfg={} cap={} buf={:?} :: {:?}", kind, c, cap, String::from_utf8_lossy(&buf), msgs); } }
    }
    println!("vectors={} mismatches={}", n, bad);
}
