------------------------------ MODULE Lane ------------------------------
EXTENDS Head, Json, IOUtils
CONSTANTS K
Seeds == ndJsonDeserialize("seeds.ndjson")
VARIABLES s, buf, cfg, stage, k
LoopPh == {"METHOD", "TARGET", "REASON", "NAME", "NAME_WS", "OWS", "VALUE", "IGN", "EXT", "LWS", "SIZE"}
Filler(ph) == IF ph \in {"OWS", "NAME_WS", "LWS"} THEN 32 ELSE IF ph = "SIZE" THEN 48 ELSE 97
AllSame(c) == (c.Mq = c.S /\ c.S = c.Iq /\ c.Mr = c.A /\ c.A = c.F /\ c.F = c.Ir) /\ (c.Mq = c.Mr \/ ~c.Mq \/ ~c.Mr)
Init == \E i \in 1..Len(Seeds) :
          /\ Seeds[i].cap >= Inf \/ Seeds[i].kind = "chunk"
          /\ AllSame(Seeds[i].cfg)
          /\ buf = Seeds[i].buf /\ cfg = Seeds[i].cfg
          /\ s = Run(Seeds[i].kind, Seeds[i].cfg, Seeds[i].cap, Seeds[i].buf)
          /\ s.ph \in LoopPh
          /\ stage = 0 /\ k = 0
Next == /\ s.ph # "DONE" /\ cfg' = cfg
        /\ \/ stage = 0 /\ k < K /\ s' = Step(s, Filler(s.ph)) /\ buf' = Append(buf, Filler(s.ph)) /\ k' = k + 1 /\ stage' = 0
           \/ stage = 0 /\ \E b \in 0..255 : s' = Step(s, b) /\ buf' = Append(buf, b) /\ stage' = 1 /\ k' = k
           \/ stage = 1 /\ \E b \in {10, 32} : s' = Step(s, b) /\ buf' = Append(buf, b) /\ stage' = 2 /\ k' = k
Spec == Init /\ [][Next]_<<s, buf, cfg, stage, k>>
Emit == PrintT(<<"V", ToJson([buf |-> buf, r |-> Project(s), cfg |-> cfg, cap |-> s.cap])>>)
=============================================================================
