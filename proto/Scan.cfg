SPECIFICATION Spec
CONSTANTS
  Alpha = {9, 32, 33, 127, 128}
  N = 9
  BS = 8
INVARIANT Correct BlockSound
CHECK_DEADLOCK FALSE
