------------------------------ MODULE StageC ------------------------------
EXTENDS Head, Json, IOUtils
CONSTANTS Alpha, L
Seeds == ndJsonDeserialize("seeds.ndjson")
VARIABLES s, buf, cfg, ext
Init == \E i \in 1..Len(Seeds) : /\ buf = Seeds[i].buf /\ cfg = Seeds[i].cfg
                                /\ s = Run(Seeds[i].kind, Seeds[i].cfg, Seeds[i].cap, Seeds[i].buf)
                                /\ ext = 0
Next == /\ s.ph # "DONE" /\ cfg' = cfg /\ ext < L
        /\ \E b \in Alpha : s' = Step(s, b) /\ buf' = Append(buf, b) /\ ext' = ext + 1
Spec == Init /\ [][Next]_<<s, buf, cfg, ext>>
Emit == PrintT(<<"V", ToJson([buf |-> buf, r |-> Project(s), cfg |-> cfg, cap |-> s.cap])>>)
=============================================================================
