---------------------------- MODULE TraceProto ----------------------------
EXTENDS Proto, Json, IOUtils
Rec == ndJsonDeserialize(IOEnv.TRACE)
VARIABLE l
TInit == l = 1
ToSeq(a) == [i \in 1..Len(a) |-> a[i]]
Check(e) == LET r == Project(Run(e.cfg, e.cap, e.buf)) IN
   /\ r.st = e.r.st /\ r.n = e.r.n /\ r.err = e.r.err
   /\ r.method = e.r.method /\ r.path = e.r.path /\ r.version = e.r.version
   /\ r.hdrs = e.r.hdrs
TNext == l <= Len(Rec) /\ Check(Rec[l]) /\ l' = l + 1
TSpec == TInit /\ [][TNext]_l
Accepted == IF TLCGet("stats").diameter - 1 = Len(Rec) THEN TRUE ELSE PrintT(<<"REJECT at", TLCGet("stats").diameter, Rec[TLCGet("stats").diameter]>>) /\ FALSE
=============================================================================
