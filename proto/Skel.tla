------------------------------ MODULE Skel ------------------------------
EXTENDS Head, Json
CONSTANTS Alphabet, Kinds, Caps
VARIABLES s, buf, cfg

B == BOOLEAN
ReqCfgs  == { [Mq |-> m, Mr |-> FALSE, A |-> FALSE, F |-> FALSE, S |-> sb, Iq |-> i, Ir |-> FALSE] : m \in B, sb \in B, i \in B }
RespCfgs == { [Mq |-> FALSE, Mr |-> m, A |-> a, F |-> f, S |-> sb, Iq |-> FALSE, Ir |-> i] : m \in B, a \in B, f \in B, sb \in B, i \in B }
DefCfg == [Mq |-> FALSE, Mr |-> FALSE, A |-> FALSE, F |-> FALSE, S |-> FALSE, Iq |-> FALSE, Ir |-> FALSE]
CfgsOf(k) == IF k = "req" THEN ReqCfgs ELSE IF k = "resp" THEN RespCfgs ELSE {DefCfg}
CapsOf(k) == IF k = "chunk" THEN {0} ELSE Caps

Init == \E k \in Kinds : \E c \in CfgsOf(k), cap \in CapsOf(k) :
          s = InitState(k, c, cap) /\ buf = <<>> /\ cfg = c
Next == /\ s.ph # "DONE"
        /\ \E b \in Alphabet : s' = Step(s, b) /\ buf' = Append(buf, b) /\ cfg' = cfg
Spec == Init /\ [][Next]_<<s, buf, cfg>>
Abs == <<s.kind, s.ph, s.k, s.M, s.hc, (IF s.cap >= Inf THEN 9 ELSE s.cap - Len(s.hdrs)), Len(s.hdrs) = 0, s.err, s.st, s.q, s.obs>>
Emit == PrintT(<<"W", ToJson([kind |-> s.kind, buf |-> buf, cfg |-> cfg, cap |-> s.cap])>>)
=============================================================================
