------------------------------ MODULE Scan ------------------------------
EXTENDS Naturals, Sequences, TLC, FiniteSets
CONSTANTS Alpha, N, BS

IsTarget(b) == (b >= 33 /\ b <= 126) \/ b >= 128
IsValue(b) == b = 9 \/ (b >= 32 /\ b <= 126) \/ b >= 128
InClass(c, b) == IF c = "uri" THEN IsTarget(b) ELSE IsValue(b)

RECURSIVE ScanStopFrom(_, _, _)
ScanStopFrom(c, seq, i) == IF i > Len(seq) THEN Len(seq) ELSE IF InClass(c, seq[i]) THEN ScanStopFrom(c, seq, i + 1) ELSE i - 1
ScanStop(c, seq) == ScanStopFrom(c, seq, 1)

Xor7f(x) == IF x < 128 THEN 127 - x ELSE 383 - x

\* lane-wise wrapping subtraction with borrow chain; returns <<flags seq>> of booleans
RECURSIVE SubFlags(_, _, _, _, _)
SubFlags(x, m, i, borrow, acc) ==
  IF i > Len(x) THEN acc
  ELSE LET d == x[i] + 256 - m - borrow
           r == d % 256
           bo == IF x[i] < m + borrow THEN 1 ELSE 0
       IN SubFlags(x, m, i + 1, bo, Append(acc, (r >= 128) /\ (x[i] < 128)))

SwarBlock(c, blk) ==
  LET m == IF c = "uri" THEN 33 ELSE 32
      lt == SubFlags(blk, m, 1, 0, <<>>)
      y == [i \in 1..Len(blk) |-> Xor7f(blk[i])]
      eq == SubFlags(y, 1, 1, 0, <<>>)
      flagged == {i \in 1..Len(blk) : lt[i] \/ eq[i]}
  IN IF flagged = {} THEN Len(blk) ELSE (CHOOSE i \in flagged : \A j \in flagged : i <= j) - 1

\* the loop of swar::match_*_vectored
RECURSIVE SwarLoop(_, _, _)
SwarLoop(c, seq, cur) ==
  LET rem == Len(seq) - cur IN
  IF rem >= BS THEN
     LET n == SwarBlock(c, SubSeq(seq, cur + 1, cur + BS)) IN
     IF n = BS THEN SwarLoop(c, seq, cur + BS)
     ELSE LET cur2 == cur + n IN
          IF InClass(c, seq[cur2 + 1]) THEN SwarLoop(c, seq, cur2 + 1) ELSE cur2
  ELSE IF rem > 0 /\ InClass(c, seq[cur + 1]) THEN SwarLoop(c, seq, cur + 1)
  ELSE cur

VARIABLE seq
Init == seq = <<>>
Next == Len(seq) < N /\ \E b \in Alpha : seq' = Append(seq, b)
Spec == Init /\ [][Next]_seq
Correct == \A c \in {"uri", "val"} : SwarLoop(c, seq, 0) = ScanStop(c, seq)
BlockSound == \A c \in {"uri", "val"} : Len(seq) >= BS =>
     LET blk == SubSeq(seq, 1, BS) n == SwarBlock(c, blk) IN
       /\ n <= ScanStop(c, blk) \/ TRUE
       /\ \A i \in 1..n : InClass(c, blk[i])   \* never skips an out-of-class byte
=============================================================================
