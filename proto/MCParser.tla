------------------------------ MODULE MCParser ------------------------------
EXTENDS Parser
Cfg == [Mq |-> MULTI, Mr |-> FALSE, A |-> FALSE, F |-> FALSE, S |-> FALSE, Iq |-> FALSE, Ir |-> FALSE]
Refines ==
  pc = "Fin" =>
    LET h == Run("req", Cfg, 0, buf) IN
      /\ (res = "P" => h.st = "P" /\ h.ph \notin {"HLINE"})
      /\ (res = "E" => h.st = "E" /\ h.err = err)
      /\ (res = "L" => h.st = "P" /\ h.ph = "HLINE")
      /\ res \in {"P", "E", "L"}
      /\ h.method = method /\ h.path = path /\ h.version = version
CursorInv == 0 <= start /\ start <= cursor /\ cursor <= Len(buf) /\ travel <= Len(buf)
Terminates == <>(pc = "Done")
=============================================================================
