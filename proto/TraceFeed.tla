---------------------------- MODULE TraceFeed ----------------------------
EXTENDS Proto, Json, IOUtils
Rec == ndJsonDeserialize(IOEnv.TRACE)
VARIABLES l, s
TInit == l = 1 /\ s = InitState([M |-> FALSE, A |-> FALSE, F |-> FALSE, S |-> FALSE, I |-> FALSE], 0)
IsEvent(e) == l <= Len(Rec) /\ Rec[l].ev = e /\ l' = l + 1
TReset == IsEvent("reset") /\ s' = InitState(Rec[l].cfg, Rec[l].cap)
TFeed == IsEvent("feed") /\ s' = Step(s, Rec[l].b)
         /\ (Rec[l].st # "?" => s'.st = Rec[l].st /\ s'.n = Rec[l].n)
TNext == TReset \/ TFeed
TSpec == TInit /\ [][TNext]_<<l, s>>
Inv == s.pos >= 0 /\ (s.st = "C" => s.n <= s.pos) /\ (s.method # NoSpan => s.method[2] <= s.pos)
Accepted == IF TLCGet("stats").diameter - 1 = Len(Rec) THEN TRUE ELSE PrintT(<<"REJECT at", TLCGet("stats").diameter>>) /\ FALSE
=============================================================================
