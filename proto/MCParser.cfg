SPECIFICATION Spec
CONSTANTS
  Alpha = {10, 13, 32, 47, 71, 69, 84, 80, 79, 83, 72, 49, 46, 1, 200}
  N = 5
  MULTI = FALSE
INVARIANT Refines CursorInv
PROPERTY Terminates
CHECK_DEADLOCK FALSE
