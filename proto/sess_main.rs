use httparse::*;
struct Lcg(u64);
impl Lcg { fn next(&mut self) -> u64 { self.0 = self.0.wrapping_mul(6364136223846793005).wrapping_add(1442695040888963407); self.0 >> 33 } }
fn cfg_of(x: u64) -> ParserConfig {
    let mut c = ParserConfig::default();
    c.allow_multiple_spaces_in_request_line_delimiters(x & 1 != 0);
    c.allow_multiple_spaces_in_response_status_delimiters(x & 2 != 0);
    c.allow_spaces_after_header_name_in_responses(x & 4 != 0);
    c.allow_obsolete_multiline_headers_in_responses(x & 8 != 0);
    c.allow_space_before_first_header_name(x & 16 != 0);
    c.ignore_invalid_headers_in_requests(x & 32 != 0);
    c.ignore_invalid_headers_in_responses(x & 64 != 0);
    c
}
fn main() {
    let reqs: Vec<&[u8]> = vec![b"GET / HTTP/1.1\r\n\r\n", b"POST /a HTTP/1.0\r\nA: b\r\n\r\n", b"PUT /x HTTP/1.1\r\nA: b\r\nC: d\r\nE: f\r\n\r\n", b"GET / HTTP/1.1\r\nA: b\r\n", b"GE", b"GET /", b"GET / HTTP/1.", b"GET / HTTP/1.1\r\nA", b"G\x01", b"GET / HTTP/2.0\r\n", b"GET / HTTP/1.1\r\nA b\r\n\r\n", b"GET  /  HTTP/1.1\r\n X: y\r\n\r\n", b"GET / HTTP/1.1\r\nA: b\r\nC: d\r\nE: f\r\nG: h\r\nI: j\r\n\r\n", b"", b"\r\n\r\nDELETE /z HTTP/1.1\n\n"];
    let resps: Vec<&[u8]> = vec![b"HTTP/1.1 200 OK\r\n\r\n", b"HTTP/1.0 404\r\nA: b\r\n\r\n", b"HTTP/1.1 200  OK\r\nA : b\r\nC: d\r\n e\r\n\r\n", b"HTTP/1.1 200 OK\r\nA: b\r\n", b"HTTP/1.1 20", b"HTTP/1.1 200 O", b"HTTP/1.1 200 \xffK\r\n\r\n", b"HTTP/1.1 200\n\n", b"HTTP/1.1 2x0\r\n", b"HTTP/1.1 200 OK\r\nA: b\r\nC: d\r\nE: f\r\nG: h\r\nI: j\r\n\r\n", b"", b"HTTP/1.1 200 OK\r\n A: b\r\nB\x01: c\r\nD: e\r\n\r\n"];
    let mut rng = Lcg(12345); let mut bad = 0; let total = 2_000_000;
    for it in 0..total {
        let is_req = it % 2 == 0;
        let hist_len = 1 + rng.next() % 4;
        let mut arr = [EMPTY_HEADER; 4];
        if is_req {
            let mut req = Request::new(&mut arr);
            for _ in 0..hist_len { let b = reqs[(rng.next() as usize) % reqs.len()]; let c = cfg_of(rng.next()); let _ = c.parse_request(&mut req, b); }
            let pb = reqs[(rng.next() as usize) % reqs.len()]; let pc = cfg_of(rng.next());
            let cap = req.headers.len();
            let mut farr = vec![EMPTY_HEADER; cap];
            let mut fresh = Request::new(&mut farr);
            let rf = pc.parse_request(&mut fresh, pb);
            let rr = pc.parse_request(&mut req, pb);
            let same = rf == rr && (!matches!(rf, Ok(Status::Complete(_))) || (fresh.method == req.method && fresh.path == req.path && fresh.version == req.version && &*fresh.headers == &*req.headers));
            if !same { bad += 1; if bad < 10 { println!("REQ MISMATCH {:?} vs {:?} probe={:?}", rr, rf, String::from_utf8_lossy(pb)); } }
            if !matches!(rr, Ok(Status::Complete(_))) && req.headers.len() != cap { bad += 1; println!("REQ headers len changed"); }
        } else {
            let mut resp = Response::new(&mut arr);
            for _ in 0..hist_len { let b = resps[(rng.next() as usize) % resps.len()]; let c = cfg_of(rng.next()); let _ = c.parse_response(&mut resp, b); }
            let pb = resps[(rng.next() as usize) % resps.len()]; let pc = cfg_of(rng.next());
            let cap = resp.headers.len();
            let mut farr = vec![EMPTY_HEADER; cap];
            let mut fresh = Response::new(&mut farr);
            let rf = pc.parse_response(&mut fresh, pb);
            let rr = pc.parse_response(&mut resp, pb);
            let same = rf == rr && (!matches!(rf, Ok(Status::Complete(_))) || (fresh.version == resp.version && fresh.code == resp.code && fresh.reason == resp.reason && &*fresh.headers == &*resp.headers));
            if !same { bad += 1; if bad < 10 { println!("RESP MISMATCH {:?} vs {:?} probe={:?}", rr, rf, String::from_utf8_lossy(pb)); } }
            if !matches!(rr, Ok(Status::Complete(_))) && resp.headers.len() != cap { bad += 1; println!("RESP headers len changed"); }
        }
    }
    println!("histories={} bad={}", total, bad);
}
