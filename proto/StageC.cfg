SPECIFICATION Spec
CONSTANTS
  Alpha = {0, 1, 9, 10, 13, 32, 34, 58, 97, 127, 200}
  L = 3
INVARIANT Emit
CHECK_DEADLOCK FALSE
