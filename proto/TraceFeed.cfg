SPECIFICATION TSpec
INVARIANT Inv
POSTCONDITION Accepted
CHECK_DEADLOCK FALSE
