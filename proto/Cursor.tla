---------------------------- MODULE Cursor ----------------------------
EXTENDS Integers
VARIABLES
  \* @type: Int;
  start,
  \* @type: Int;
  cursor,
  \* @type: Int;
  end

Init == start = 0 /\ cursor = 0 /\ end \in Nat
TypeOK == start \in Int /\ cursor \in Int /\ end \in Int
IndInv == TypeOK /\ 0 <= start /\ start <= cursor /\ cursor <= end
IndInit == IndInv
Advance == \E n \in Nat : n <= end - cursor /\ cursor' = cursor + n /\ UNCHANGED <<start, end>>
NextB == cursor < end /\ cursor' = cursor + 1 /\ UNCHANGED <<start, end>>
Slice == start' = cursor /\ UNCHANGED <<cursor, end>>
SliceSkip == \E k \in Nat : k <= cursor - start /\ start' = cursor /\ UNCHANGED <<cursor, end>>
Stutter == UNCHANGED <<start, cursor, end>>
Next == Advance \/ NextB \/ Slice \/ SliceSkip \/ Stutter
=============================================================================
