---------------------------- MODULE Chunk2 ----------------------------
EXTENDS Integers
VARIABLES
  \* @type: Int;
  count,
  \* @type: Int;
  size
\* @type: (Int) => Int;
Pow16(c) == IF c = 0 THEN 1 ELSE IF c = 1 THEN 16 ELSE IF c = 2 THEN 256 ELSE IF c = 3 THEN 4096 ELSE IF c = 4 THEN 65536 ELSE IF c = 5 THEN 1048576 ELSE IF c = 6 THEN 16777216 ELSE IF c = 7 THEN 268435456 ELSE IF c = 8 THEN 4294967296 ELSE IF c = 9 THEN 68719476736 ELSE IF c = 10 THEN 1099511627776 ELSE IF c = 11 THEN 17592186044416 ELSE IF c = 12 THEN 281474976710656 ELSE IF c = 13 THEN 4503599627370496 ELSE IF c = 14 THEN 72057594037927936 ELSE IF c = 15 THEN 1152921504606846976 ELSE 18446744073709551616
Init == count = 0 /\ size = 0
IndInv == count \in 0..17 /\ size >= 0 /\ size < Pow16(count)
IndInit == count \in 0..17 /\ size \in Int /\ size >= 0 /\ size < Pow16(count)
NoOverflow == size <= 18446744073709551615
Digit == count <= 16 /\ \E d \in 0..15 : size' = size * 16 + d /\ count' = count + 1
Stutter == UNCHANGED <<count, size>>
Next == Digit \/ Stutter
Inv2 == IndInv /\ NoOverflow
=============================================================================
