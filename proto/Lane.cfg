SPECIFICATION Spec
CONSTANTS
  K = 70
INVARIANT Emit
CHECK_DEADLOCK FALSE
