"""Shared plumbing of the check driver: paths, TLC runs, cargo builds, vector
cache, evidence files, verdict lines.  Exit codes: 0 ok, 1 violation (with a
VIOLATION line), 2 tool error / timeout."""
import hashlib, json, os, re, shutil, subprocess, sys, time

VERIF = os.path.dirname(os.path.dirname(os.path.abspath(__file__)))
SPEC = os.path.join(VERIF, "spec")
HARNESS = os.path.join(VERIF, "harness")
WORK = os.path.join(VERIF, "work")
CACHE = os.path.join(WORK, "cache")
EVID = os.path.join(VERIF, "evidence")
REPLAYS = os.path.join(EVID, "replays")
REPO = "/repo"
NCPU = os.cpu_count() or 8


class ToolError(Exception):
    pass


def log(*a):
    print(*a, flush=True)


def sh(cmd, timeout=None, env=None, cwd=None, stdout=None, check=True):
    e = dict(os.environ)
    if env:
        e.update(env)
    try:
        r = subprocess.run(cmd, shell=isinstance(cmd, str), timeout=timeout, env=e, cwd=cwd,
                           stdout=stdout if stdout is not None else subprocess.PIPE,
                           stderr=subprocess.STDOUT if stdout is None else subprocess.PIPE, text=True)
    except subprocess.TimeoutExpired:
        raise ToolError("timeout after %ss: %s" % (timeout, cmd if isinstance(cmd, str) else " ".join(cmd)))
    if check and r.returncode != 0:
        raise ToolError("command failed (%d): %s\n%s" % (r.returncode, cmd, (r.stdout or "")[-3000:] + (r.stderr or "")[-3000:]))
    return r


# ------------------------------------------------------------------ spec hash
def spec_hash(extra=""):
    h = hashlib.sha256()
    # only the modules vector generation depends on
    for f in ["Bytes.tla", "Head.tla", "Skel.tla", "Gen.tla", "Classes.tla"]:
        h.update(f.encode())
        h.update(open(os.path.join(SPEC, f), "rb").read())
    h.update(extra.encode())
    return h.hexdigest()[:16]


# ------------------------------------------------------------------ TLC
TLC_STATS = re.compile(r"(\d+) states generated, (\d+) distinct states found")


def tlc(module, cfg_text, workdir, name, workers=8, timeout=900, env=None, out_path=None,
        simulate=None, coverage=False, keep_lines=None, heap="8g", deadlock_ok=True):
    """Run TLC on spec/<module>.tla with the given cfg text.  Output goes to
    out_path (default <workdir>/<name>.out).  Returns dict(states, distinct, out)."""
    os.makedirs(workdir, exist_ok=True)
    cfg = os.path.join(workdir, name + ".cfg")
    open(cfg, "w").write(cfg_text)
    out_path = out_path or os.path.join(workdir, name + ".out")
    md = os.path.join(workdir, name + ".md")
    shutil.rmtree(md, ignore_errors=True)
    cmd = ["tlc", "-workers", str(workers), "-metadir", md, "-cleanup", "-noGenerateSpecTE",
           "-config", cfg]
    if coverage:
        cmd += ["-coverage", "1"]
    if simulate:
        cmd += ["-simulate", simulate]
    cmd += [os.path.join(SPEC, module + ".tla")]
    e = dict(os.environ)
    e["JAVA_TOOL_OPTIONS"] = "-Xss16m -XX:ParallelGCThreads=4 -Xmx%s" % heap
    if env:
        e.update(env)
    t0 = time.time()
    with open(out_path, "w") as fo:
        try:
            r = subprocess.run(cmd, stdout=fo, stderr=subprocess.STDOUT, env=e, cwd=workdir, timeout=timeout)
        except subprocess.TimeoutExpired:
            if simulate:
                r = None
            else:
                raise ToolError("TLC timeout after %ss on %s (%s)" % (timeout, module, name))
    shutil.rmtree(md, ignore_errors=True)
    res = {"out": out_path, "wall_s": time.time() - t0, "states": 0, "distinct": 0, "violation": None,
           "rc": None if r is None else r.returncode}
    tail = []
    with open(out_path, errors="replace") as f:
        for line in f:
            if line.startswith('"['):
                continue
            tail.append(line)
            if len(tail) > 400:
                tail.pop(0)
            m = TLC_STATS.search(line)
            if m:
                res["states"] = int(m.group(1))
                res["distinct"] = int(m.group(2))
    text = "".join(tail)
    res["tail"] = text
    if "Invariant " in text and " is violated" in text:
        m = re.search(r"Invariant (\S+) is violated", text)
        res["violation"] = m.group(1) if m else "invariant"
    elif "Action property" in text and "violated" in text:
        m = re.search(r"Action property (\S+) is violated", text)
        res["violation"] = m.group(1) if m else "action property"
    elif "Temporal properties were violated" in text:
        res["violation"] = "temporal property"
    elif r is not None and r.returncode != 0 and not simulate:
        if "Error:" in text or "error" in text.lower():
            raise ToolError("TLC failed on %s (%s), rc=%s:\n%s" % (module, name, r.returncode, text[-2500:]))
    return res


def tlc_coverage(out_path):
    """per-action counts from a -coverage run: {action: (distinct, total)}"""
    cov = {}
    pat = re.compile(r"^<(\w+) line \d+, col \d+ to line \d+, col \d+ of module \w+>: (\d+):(\d+)")
    with open(out_path, errors="replace") as f:
        for line in f:
            m = pat.match(line.strip())
            if m:
                cov[m.group(1)] = (int(m.group(2)), int(m.group(3)))
    return cov


# ------------------------------------------------------------------ cargo
_built = {}


def build_harness(profile="release", extra_rustflags="", env=None, target_subdir=None, features=None):
    """(Re)build the harness against /repo's working tree.  Returns the bin dir."""
    key = (profile, extra_rustflags, json.dumps(env or {}, sort_keys=True), target_subdir, features)
    if key in _built:
        return _built[key]
    e = {"CARGO_NET_OFFLINE": "true"}
    if env:
        e.update(env)
    tdir = os.path.join(HARNESS, "target" if not target_subdir else os.path.join("target", target_subdir))
    cmd = ["cargo", "build", "--offline", "--profile", profile, "--target-dir", tdir]
    if features is not None:
        cmd += ["--no-default-features", "--features", features]
    if extra_rustflags:
        e["RUSTFLAGS"] = "--cfg httparse_verif --check-cfg cfg(httparse_verif) " + extra_rustflags
    r = sh(cmd, cwd=HARNESS, env=e, timeout=1200, check=False)
    if r.returncode != 0:
        raise ToolError("cargo build failed (%s):\n%s" % (profile, (r.stdout or "")[-4000:]))
    d = os.path.join(tdir, "release" if profile == "release" else profile)
    _built[key] = d
    return d


# ------------------------------------------------------------------ evidence / verdict
def write_replay(prop, obj):
    os.makedirs(REPLAYS, exist_ok=True)
    blob = json.dumps(obj, sort_keys=True)
    h = hashlib.sha256(blob.encode()).hexdigest()[:12]
    p = os.path.join(REPLAYS, "%s-%s.json" % (prop, h))
    open(p, "w").write(json.dumps(obj, indent=1, sort_keys=True))
    return p


def load_known():
    p = os.path.join(VERIF, "known_findings.json")
    if not os.path.exists(p):
        return {"findings": [], "fixed": []}
    return json.load(open(p))


def write_evidence(prop, tier, seed, level, coverage, wall_s, violations, assumptions):
    os.makedirs(EVID, exist_ok=True)
    ev = {"property_id": prop, "tier": tier, "seed": seed, "level": level, "coverage": coverage,
          "assumptions": assumptions, "wall_s": round(wall_s, 2), "violations": violations}
    open(os.path.join(EVID, prop + ".json"), "w").write(json.dumps(ev, indent=1))
    return ev
