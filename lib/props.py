"""Per-property check plans (DESIGN.md section 5)."""
import os, json, re, shutil, subprocess
from common import *
from engine import *
import families
from families import ALPHA11, ALPHA17, CHUNK14, ALLK

K_REQ, K_RESP, K_HDRS, K_CHUNK = "0", "1", "2", "3"
HEADS = "0,1,2"


def mc_cfg(invs=(), props=(), kinds=ALLK, L="1", alpha=ALPHA11, caps="{1, 100000}", phases="{}", cfgs="{}",
           family="EXT", maxlen=100000, follow="{}", lanebytes="{}", spec="MCSpec"):
    c = families.gen_cfg(family, caps=caps, kinds=kinds, maxlen=maxlen, phases=phases, cfgs=cfgs, follow=follow,
                         alpha=alpha, L=L, lanebytes=lanebytes)
    c = dict(c)
    lines = ["SPECIFICATION " + spec, "CONSTANTS"]
    for k, v in c.items():
        lines.append("  %s = %s" % (k, v))
    lines += ["  SeedMod = 1", "  SeedRem = 0"]
    if invs:
        lines.append("INVARIANT " + " ".join(invs))
    if props:
        lines.append("PROPERTY " + " ".join(props))
    lines += ["CHECK_DEADLOCK FALSE", ""]
    return "\n".join(lines)


def mc_head(res, label, **kw):
    seeds, meta = families.seeds_file()
    timeout = kw.pop("timeout", 1500)
    workers = kw.pop("workers", 12)
    return mc_step(res, label, "MCHead", mc_cfg(**kw), workers=workers, timeout=timeout, env={"SEEDS": seeds})


def fam(tier, q, t):
    return q if tier == "quick" else t


HDR_PHASES = '{"HLINE", "HEND_CR", "NAME", "NAME_WS", "OWS", "OWS_CR", "FOLD_E", "VALUE", "VAL_CR", "FOLD_V", "IGN", "IGN_CR"}'

A_SPEC = "the TLA+ specification (Head/Ref/Props) states the property correctly; TLC, SANY and the Json/IOUtils modules are sound"
A_BOUND = "conformance of the code is established only on the vectors and traces explored in this run (bounded, not a proof about the code)"
A_OBS = "the Rust replayer reports observations faithfully (it contains no parsing logic; byte classes come from Bytes.tla)"
RULE_VEC = ("vectors are TLC-generated behaviours of spec/Gen.tla (every visited state = one input prefix with its expected "
            "result); each is pushed through the real parser and judged under this property's projection; "
            "non-trivial = non-empty input; distinct = distinct (kind, option bits, capacity, bytes), counted from 64-bit "
            "hashes over all replay steps of the run (a vector replayed in several modes / profiles / backends counts once); "
            "traces (feed inputs, sessions, operation traces, scan events, client programs, cold starts) are added by their number")


# ---------------------------------------------------------------------------
def c06(res):
    t = res.tier
    mc_head(res, "language-req", invs=["InvLanguage"], kinds='{"req"}', L=fam(t, "2", "3"), alpha=ALPHA17 if t == "quick" else ALPHA11)
    for f in fam(t, ["byte_q", "ext_q", "lane_q", "len_q", "methods", "versions", "prefaces", "deep_q", "lane8_q"], ["byte_t", "ext_t", "ext17_t", "lane_t", "len_t", "methods", "versions", "prefaces", "deep_t", "lane8_t"]):
        replay_step(res, f, kinds=K_REQ, modes="base")
    if t == "thorough":
        for b in (2, 3):
            replay_step(res, "lane_t", kinds=K_REQ, modes="base", backend=b)
        replay_step(res, "byte_t", kinds=K_REQ, modes="base", profile="dbgchk")
    feed_traces(res, fam(t, 250000, 3000000), kinds="0")
    if t == "thorough":
        mc_head(res, "language-req-all-bytes", invs=["InvLanguage"], kinds='{"req"}', family="BYTE", follow="{10, 32}", caps="{1, 100000}", timeout=3000)
    replay_step(res, "lanetail_q", kinds=K_REQ, modes="straddleall")
    replay_step(res, "lanews_q", kinds=K_REQ, modes="straddle8")
    replay_step(res, "lanelong_q", kinds=K_REQ, modes="base")
    replay_step(res, "punct_q", kinds=K_REQ, modes="base")
    call_traces(res)
    for f in ("laneu4_q", "laneu3_q", "unispace"):
        replay_step(res, f, kinds=K_REQ, modes="base")
    variant_sweep(res, ["methods", "lane_q"], kinds=K_REQ)


def c07(res):
    t = res.tier
    mc_head(res, "language-resp", invs=["InvLanguage"], kinds='{"resp"}', L=fam(t, "2", "3"), cfgs=fam(t, "{0, 2}", "{}"),
            alpha=ALPHA17 if t == "quick" else ALPHA11)
    for f in fam(t, ["byte_q", "ext_q", "lane_q", "len_q", "code_q", "versions", "reasons", "deep_q", "lane8_q"], ["byte_t", "ext_t", "ext17_t", "lane_t", "len_t", "code_t", "versions", "reasons", "deep_t", "lane8_t"]):
        replay_step(res, f, kinds=K_RESP, modes="base")
    if t == "thorough":
        replay_step(res, "byte_t", kinds=K_RESP, modes="base", profile="dbgchk")
    feed_traces(res, fam(t, 250000, 3000000), kinds="1")
    if t == "thorough":
        mc_head(res, "language-resp-all-bytes", invs=["InvLanguage"], kinds='{"resp"}', family="BYTE", follow="{10}", caps="{100000}", cfgs="{0, 2, 94}", timeout=3000)
    replay_step(res, "lanetail_q", kinds=K_RESP, modes="straddleall")
    replay_step(res, "lanews_q", kinds=K_RESP, modes="straddle8")
    replay_step(res, "lanelong_q", kinds=K_RESP, modes="base")
    replay_step(res, "punct_q", kinds=K_RESP, modes="base")
    call_traces(res)
    for f in ("laneu4_q", "laneu3_q", "unispace"):
        replay_step(res, f, kinds=K_RESP, modes="base")
    variant_sweep(res, ["reasons", "lane_q"], kinds=K_RESP)


def c08(res):
    t = res.tier
    mc_head(res, "language-hdrs-default", invs=["InvLanguage"], kinds='{"req", "resp", "hdrs"}', phases=HDR_PHASES,
            cfgs="{0, 1, 2}", L=fam(t, "2", "4"), caps=fam(t, "{1, 100000}", "{0, 1, 2, 100000}"))
    for f in fam(t, ["byte_q", "ext_q", "lane_q", "len_q", "lines_q", "deep_q", "lane8_q", "dict_q"], ["byte_t", "ext_t", "lane_t", "len_t", "lines_t", "hdrext_t", "deep_t", "lane8_t", "dict_q"]):
        replay_step(res, f, kinds=HEADS, modes="base")
    if t == "thorough":
        for b in (2, 3):
            replay_step(res, "lane_t", kinds=HEADS, modes="base", backend=b)
    feed_traces(res, fam(t, 250000, 3000000), kinds="0,1,2")
    if t == "thorough":
        mc_head(res, "language-hdrs-all-bytes", invs=["InvLanguage"], kinds='{"hdrs", "req"}', family="BYTE", follow="{10}", caps="{1, 100000}", cfgs="{0}", timeout=3000)
    replay_step(res, "lanetail_q", kinds=HEADS, modes="straddleall")
    replay_step(res, "lanews_q", kinds=HEADS, modes="straddle8")
    replay_step(res, "lanelong_q", kinds=HEADS, modes="base")
    replay_step(res, "punct_q", kinds=HEADS, modes="base")
    replay_step(res, "trim_q", kinds=HEADS, modes="base")
    call_traces(res)
    for f in ("laneu4_q", "laneu3_q", "unispace"):
        replay_step(res, f, kinds=HEADS, modes="base")
    variant_sweep(res, ["lines_q"], kinds=HEADS)


def c09(res):
    t = res.tier
    mc_head(res, "language-chunk", invs=["InvLanguage", "InvFraming"], kinds='{"chunk"}', L=fam(t, "3", "4"), alpha=CHUNK14)
    # no overflow with at most 16 digits, for unbounded integers; one digit more is refuted
    apalache_step(res, "chunk-base", "ApaChunk", "Init", "Safe", length=0)
    apalache_step(res, "chunk-step", "ApaChunk", "IndInit", "Safe", length=1)
    apalache_step(res, "chunk-17-digits", "ApaChunk", "IndInit", "NoOverflow", nxt="NextLoose", length=1, expect_violation=True)
    for f in fam(t, ["byte_q", "ext_q", "lane_q", "chunk_q", "digits"], ["byte_t", "ext_t", "lane_t", "chunk_t", "digits"]):
        replay_step(res, f, kinds=K_CHUNK, modes="base")
        replay_step(res, f, kinds=K_CHUNK, modes="base", profile="dbgchk")
    feed_traces(res, fam(t, 250000, 3000000), kinds="3")
    if t == "thorough":
        mc_head(res, "language-chunk-all-bytes", invs=["InvLanguage", "InvFraming"], kinds='{"chunk"}', family="BYTE", follow="{10, 13, 32, 58, 97}", timeout=3000)
    replay_step(res, "punct_q", kinds=K_CHUNK, modes="base")
    call_traces(res)
    variant_sweep(res, ["digits", "chunk_q"], kinds=K_CHUNK)


def c10(res):
    t = res.tier
    mc_head(res, "errkind", invs=["InvLanguage"], L=fam(t, "1", "2"), caps="{0, 1, 2, 100000}")
    for f in fam(t, ["byte_q", "ext_q", "lines_q", "methods", "versions", "prefaces", "walk_q", "deep_q", "dict_q"], ["byte_t", "ext_t", "lines_t", "hdrext_t", "methods", "versions", "prefaces", "walk_t", "deep_t", "dict_q"]):
        replay_step(res, f, kinds=HEADS, modes="base")
    feed_traces(res, fam(t, 250000, 3000000), kinds="0,1,2")
    replay_step(res, "punct_q", kinds=HEADS, modes="base")
    call_traces(res)
    replay_step(res, "unispace", kinds=HEADS, modes="base")
    variant_sweep(res, ["byte_q"], kinds=HEADS)


def c11(res):
    t = res.tier
    mc_head(res, "honest-partial", invs=["InvHonest", "InvDeferredClosed"], L=fam(t, "1", "2"), caps="{0, 1, 2, 100000}")
    parser_refinement(res, fam(t, "3", "4"), which=fam(t, ("status-line", "chunk-size"), None))
    for f in fam(t, ["byte_q", "ext_q", "chunk_q", "methods", "versions", "prefaces", "walk_q", "deep_q"], ["byte_t", "ext_t", "chunk_t", "lane_t", "methods", "versions", "prefaces", "walk_t", "deep_t"]):
        replay_step(res, f, modes="completion")
    feed_traces(res, fam(t, 250000, 3000000), kinds="0,1,2,3")
    replay_step(res, "unispace", modes="completion")
    replay_step(res, "punct_q", modes="completion")
    call_traces(res)
    variant_sweep(res, ["byte_q"], modes="completion")


def c02(res):
    t = res.tier
    mc_head(res, "streaming", invs=["InvPast", "InvConsumed"], props=["PropAbsorbing", "PropFieldsMonotone", "PropHeadersAppendOnly"],
            L=fam(t, "1", "2"), caps="{0, 1, 2, 100000}")
    parser_refinement(res, fam(t, "3", "4"), which=fam(t, ("req-line", "header-block"), None))
    for f in fam(t, ["byte_q", "ext_q", "chunk_q", "digits", "methods", "versions", "prefaces", "reasons", "walk_q"], ["byte_t", "ext_t", "chunk_t", "digits", "lines_t", "methods", "versions", "prefaces", "reasons", "walk_t"]):
        replay_step(res, f, modes="extend")
    feed_traces(res, fam(t, 250000, 3000000), kinds="0,1,2,3")
    replay_step(res, "lanetail_q", modes="straddleall")
    replay_step(res, "lanews_q", modes="straddle8")
    for f in ("lane8_q", "laneu4_q", "methods", "reasons"):
        replay_step(res, f, modes="giant")
    replay_step(res, "punct_q", modes="extend")
    replay_step(res, "unispace", modes="extend")


def c03(res):
    t = res.tier
    mc_head(res, "framing", invs=["InvFraming"], L=fam(t, "2", "3"), caps=fam(t, "{1, 100000}", "{0, 1, 2, 100000}"))
    for f in fam(t, ["byte_q", "ext_q", "lane_q", "lines_q", "chunk_q", "methods", "versions", "prefaces", "walk_q", "lane8_q", "dict_q"], ["byte_t", "ext_t", "lane_t", "lines_t", "chunk_t", "hdrext_t", "methods", "versions", "prefaces", "walk_t", "lane8_t", "dict_q"]):
        replay_step(res, f, modes="base")
    feed_traces(res, fam(t, 250000, 3000000), kinds="0,1,2,3")
    replay_step(res, "lanetail_q", modes="straddleall")
    replay_step(res, "lanews_q", modes="straddle8")
    variant_sweep(res, ["lines_q", "dict_q"])
    replay_step(res, "punct_q", modes="base")
    call_traces(res)


def c04(res):
    t = res.tier
    mc_head(res, "spans", invs=["InvSpans", "InvPast"], L=fam(t, "2", "3"))
    for f in fam(t, ["byte_q", "ext_q", "lane_q", "len_q", "methods", "versions", "prefaces", "code_q", "lane8_q", "dict_q"], ["byte_t", "ext_t", "lane_t", "len_t", "lines_t", "methods", "versions", "prefaces", "code_q", "lane8_t", "dict_q"]):
        replay_step(res, f, kinds=HEADS, modes="entries" if f.startswith("ext") or f in ("methods", "versions") else "base")
    feed_traces(res, fam(t, 250000, 3000000), kinds="0,1,2")
    client_programs(res, fam(t, 600, 6000))
    op_traces(res, fam(t, 3000, 30000))
    replay_step(res, "lanetail_q", kinds=HEADS, modes="straddleall")
    replay_step(res, "lanews_q", kinds=HEADS, modes="straddle8")
    for f in ("laneu4_q", "unispace"):
        replay_step(res, f, kinds=HEADS, modes="base")
    replay_step(res, "lane_q", kinds=HEADS, modes="giant")
    call_traces(res)


def c05(res):
    t = res.tier
    mc_head(res, "hygiene", invs=["InvHygiene"], L=fam(t, "2", "3"))
    for f in fam(t, ["byte_q", "lane_q", "ext_q", "methods", "versions", "prefaces", "reasons", "walk_q", "deep_q", "lane8_q", "dict_q"], ["byte_t", "lane_t", "ext_t", "ext17_t", "hdrext_t", "methods", "versions", "prefaces", "reasons", "walk_t", "deep_t", "lane8_t", "dict_q"]):
        replay_step(res, f, kinds=HEADS, modes="base")
    feed_traces(res, fam(t, 250000, 3000000), kinds="0,1,2")
    replay_step(res, "lanetail_q", kinds=HEADS, modes="straddleall")
    replay_step(res, "lanews_q", kinds=HEADS, modes="straddle8")
    replay_step(res, "lanelong_q", kinds=HEADS, modes="base")
    for f in ("laneu4_q", "laneu3_q", "unispace"):
        replay_step(res, f, kinds=HEADS, modes="base")
    for b in (None, 2, 3):
        replay_step(res, "lane_q", kinds=HEADS, modes="giant", backend=b)
    replay_step(res, "punct_q", kinds=HEADS, modes="base")
    replay_step(res, "trim_q", kinds=HEADS, modes="base")
    variant_sweep(res, ["lane_q"], kinds=HEADS)


def c14(res):
    t = res.tier
    mc_head(res, "language-hdrs-options", invs=["InvLanguage", "InvHygiene"], kinds='{"req", "resp"}', phases=HDR_PHASES,
            L=fam(t, "2", "3"), caps=fam(t, "{100000}", "{1, 100000}"))
    for f in fam(t, ["byte_q", "ext_q", "lane_q", "lines_q", "deep_q", "lane8_q", "dict_q"], ["byte_t", "ext_t", "lane_t", "lines_t", "hdrext_t", "deep_t", "lane8_t", "dict_q"]):
        replay_step(res, f, kinds="0,1", modes="base")
    feed_traces(res, fam(t, 250000, 3000000), kinds="0,1")
    if t == "thorough":
        mc_head(res, "language-options-all-bytes", invs=["InvLanguage"], kinds='{"resp"}', family="BYTE", follow="{10}", caps="{100000}", cfgs="{94, 8, 64, 4, 16}", phases=HDR_PHASES, timeout=3000)
    replay_step(res, "lanetail_q", kinds="0,1", modes="straddleall")
    replay_step(res, "lanews_q", kinds="0,1", modes="straddle8")
    replay_step(res, "unispace", kinds="0,1", modes="base")
    variant_sweep(res, ["lines_q"], kinds="0,1")
    replay_step(res, "punct_q", kinds="0,1", modes="base")
    replay_step(res, "trim_q", kinds="0,1", modes="base")
    call_traces(res)
    config_traces(res, fam(t, 4000, 60000))


def multi(res, invs, depth, kinds=("req", "resp")):
    for k in kinds:
        mc_step(res, "product-" + k, "Multi",
                "SPECIFICATION Spec\nCONSTANTS\n  PKind = \"%s\"\n  Alpha = {0, 9, 10, 13, 32, 58, 97, 127, 200}\n  Depth = %s\nINVARIANT %s\nCHECK_DEADLOCK FALSE\n"
                % (k, depth, " ".join(invs)), workers=12, timeout=2400)


def c15(res):
    t = res.tier
    mc_head(res, "language-allcfgs", invs=["InvLanguage"], kinds='{"req", "resp"}', L="1")
    multi(res, ["Conservative"], fam(t, "4", "6"))
    for f in fam(t, ["ext_q", "lines_q", "methods", "versions", "prefaces", "code_q", "reasons", "dict_q"], ["byte_q", "ext_t", "lines_t", "methods", "versions", "prefaces", "code_q", "reasons", "dict_q"]):
        replay_step(res, f, kinds="0,1", modes="cfgs")
    replay_step(res, "unispace", kinds="0,1", modes="cfgsdone")
    call_traces(res)
    config_traces(res, fam(t, 4000, 60000))


def c16(res):
    t = res.tier
    mc_head(res, "language-kinds", invs=["InvLanguage"], L="1")
    multi(res, ["EntryKindsAgree"], fam(t, "4", "6"), kinds=("req",))
    for f in fam(t, ["byte_q", "ext_q", "lines_q", "methods", "versions", "prefaces", "dict_q"], ["byte_t", "ext_t", "lines_t", "lane_t", "methods", "versions", "prefaces", "dict_q"]):
        replay_step(res, f, kinds=HEADS, modes="entries,embed")
    replay_step(res, "punct_q", kinds=HEADS, modes="entries")
    call_traces(res)


def c17(res):
    t = res.tier
    mc_head(res, "capacity", invs=["InvLanguage"], kinds='{"req", "resp", "hdrs"}', phases=HDR_PHASES, L=fam(t, "1", "2"),
            caps="{0, 1, 2}")
    multi(res, ["CapacityLaw", "WithinCapacity"], fam(t, "4", "6"))
    for f in fam(t, ["lines_q", "byte_q", "dict_q"], ["lines_t", "byte_t", "ext_t", "dict_q"]):
        replay_step(res, f, kinds=HEADS, modes="entries,caplaw")
    feed_traces(res, fam(t, 250000, 3000000), kinds="0,1,2")
    session_traces(res, fam(t, 6000, 40000))
    call_traces(res)


NOSTD_FLAGSETS = {
    "plain": [],
    "native": ["-C", "target-cpu=native"],          # every target feature this host has (bmi, lzcnt, popcnt, avx2, avx512...)
    "sse42": ["-C", "target-feature=+sse4.2"],
    "avx2": ["-C", "target-feature=+avx2"],
    "bitmanip": ["-C", "target-feature=+bmi1,+bmi2,+lzcnt,+popcnt"],
    "opt-s": ["-C", "opt-level=s"],
    "opt-1-dbg": ["-C", "opt-level=1", "-C", "debug-assertions=on", "-C", "overflow-checks=on"],
}


def nostd_link(res):
    """with `std` off the crate must link into a program without std and without an allocator,
    under every code-generation switch a user may pass (cfg(target_feature) arms are code too)"""
    d = os.path.join(HARNESS, "nostd-link")
    base = ["-C", "link-arg=-nostartfiles", "-C", "link-arg=-lc"]
    procs = []
    for name, flags in NOSTD_FLAGSETS.items():
        cfgarg = "target.x86_64-unknown-linux-gnu.rustflags=%s" % json.dumps(base + flags)
        cmd = ["cargo", "build", "--offline", "--release", "--target-dir", os.path.join("target", "fs-" + name), "--config", cfgarg]
        procs.append((name, flags, subprocess.Popen(cmd, cwd=d, env=dict(os.environ, CARGO_NET_OFFLINE="true"), stdout=subprocess.PIPE, stderr=subprocess.STDOUT, text=True, errors="replace")))
    linked = {}
    for name, flags, p in procs:
        try:
            out, _ = p.communicate(timeout=900)
        except subprocess.TimeoutExpired:
            p.kill()
            raise ToolError("no_std link build timed out (%s)" % name)
        ok = p.returncode == 0
        linked[name] = ok
        res.evaluations += 1
        if not ok:
            out = (out or "")[-1500:]
            res.violation("with the std feature disabled the crate does not build / link into a program without std and without an allocator (rustc flags %s): %s" % (" ".join(flags) or "none", out[-400:]),
                          {"kind": "nostd-link", "key": "nostd-link:" + name, "flags": flags, "output": out})
    res.extra["no_std_link"] = {"linked": all(linked.values()), "per_flag_set": linked,
                                "what": "#![no_std] #![no_main] program, panic=abort, no global allocator, httparse with default-features=false, all five entry points referenced"}
    log("  [link] no_std, allocator-less program links: %s" % linked)


def c19(res):
    t = res.tier
    mc_head(res, "outcome-coverage", invs=["InvConsumed"], L="1", caps="{0, 1, 2, 100000}")
    nostd_link(res)
    for f in fam(t, ["byte_q", "lines_q", "chunk_q", "methods", "versions", "prefaces", "ext_q", "dict_q"], ["byte_t", "ext_t", "lines_t", "lane_t", "chunk_t", "methods", "versions", "prefaces", "dict_q"]):
        replay_step(res, f, modes="entries")
    if res.extra["no_std_link"]["linked"]:
        replay_step(res, "lines_q", modes="entries", variant=VARIANTS["nostd"])
    replay_step(res, "len_q", modes="entries", backend=3)
    ambient_step(res)
    call_traces(res)


def ambient_names():
    """names of environment variables the library source mentions (std::env::var, var_os, getenv, env!, option_env!)"""
    import re
    names = set()
    srcs = [os.path.join(dp, f) for dp, _, fs in os.walk(os.path.join(REPO, "src")) for f in fs if f.endswith(".rs")]
    for path in srcs:
        txt = open(path, errors="replace").read()
        # hook module and test modules excluded: they are not part of the library a user links
        if path.endswith("verif.rs"):
            continue
        txt = txt.split("#[cfg(test)]")[0]
        for m in re.finditer(r'(?:var|var_os|getenv|vars|remove_var|set_var)\s*\(\s*b?"([^"]+)"', txt):
            names.add(m.group(1))
    return sorted(names)


def ambient_step(res, family="versions", modes="entries"):
    """the process environment is an input nobody passes explicitly: every variable the source
    names is set (to several values) in a cold process, and the replay must not notice"""
    names = ambient_names()
    res.extra["ambient_env_names"] = names
    if not names:
        # nothing in the source reads the environment; one run with a noisy environment all the same
        replay_step(res, family, modes=modes, run_env={"HTTPARSE": "1", "RUST_BACKTRACE": "1", "LANG": "C"}, label="%s/%s/noisy-env" % (family, modes), threads=2)
        return
    for val in ("1", "0", "", "swar", "sse4.2", "avx2", "off"):
        replay_step(res, family, modes=modes, run_env={n: val for n in names}, label="%s/%s/env=%r" % (family, modes, val), threads=2)


def c01(res):
    t = res.tier
    mc_head(res, "total", invs=["InvTotal", "InvConsumed"], L="1", caps="{0, 1, 2, 100000}")
    for f in fam(t, ["byte_q", "ext_q", "lane_q", "len_q", "lines_q", "methods", "versions", "prefaces", "walk_q", "deep_q", "lane8_q", "dict_q"], ["byte_t", "ext_t", "lane_t", "len_t", "lines_t", "chunk_t", "methods", "versions", "prefaces", "walk_t", "deep_t", "lane8_t", "dict_q"]):
        replay_step(res, f, modes="places,entries")
        replay_step(res, f, modes="places", profile="dbgchk")
    for b in (2, 3):
        replay_step(res, fam(t, "lane_q", "lane_t"), modes="places", backend=b)
    mc_step(res, "cursor-contract", "MCCursor", "SPECIFICATION MCSpecC\nCONSTANT MaxLen = 6\nINVARIANT IndInv\nPROPERTY Forward\nCHECK_DEADLOCK FALSE\n", workers=4)
    cursor_inductive(res)
    op_traces(res, fam(t, 6000, 60000), backends=(None, 2, 3))
    if t == "thorough":
        op_traces(res, 20000, backends=(None,), profile="dbgchk")
        work_traces(res, [65536, 1048576])
        parser_refinement(res, "4")
    replay_step(res, "lanetail_q", modes="straddleall")
    replay_step(res, "lanews_q", modes="straddle8,places")
    replay_step(res, "lanelong_q", modes="alignall")
    for b in (None, 2, 3):
        replay_step(res, "lane_q", modes="giant", backend=b)
    for f in ("laneu4_q", "laneu3_q", "unispace"):
        replay_step(res, f, modes="places")
    memcheck_step(res, fam(t, ["lanetail_q"], ["lanetail_q", "lane_q", "lane8_q"]))
    variant_sweep(res, ["lane_q"], modes="places")
    replay_step(res, "punct_q", modes="places,entries")
    call_traces(res)


VARIANTS = {
    "sse42ct": {"rustflags": "-C target-feature=+sse4.2", "subdir": "sse42ct"},
    "avx2ct": {"rustflags": "-C target-feature=+avx2", "subdir": "avx2ct"},
    "nosimd": {"env": {"CARGO_CFG_HTTPARSE_DISABLE_SIMD": "1"}, "subdir": "nosimd"},
    "noct": {"rustflags": "-C target-feature=+avx2", "env": {"CARGO_CFG_HTTPARSE_DISABLE_SIMD_COMPILETIME": "1"}, "subdir": "noct"},
    "nostd": {"features": "", "subdir": "nostd"},
    # code-generation switches a user may pass: cfg(target_feature = ..), cfg(panic = ..) arms and
    # anything build.rs derives from the profile (OPT_LEVEL, DEBUG, PROFILE) are code too
    "native": {"rustflags": "-C target-cpu=native", "subdir": "native"},
    "bitmanip": {"rustflags": "-C target-feature=+lzcnt,+bmi1,+bmi2,+popcnt", "subdir": "bitmanip"},
    "opts": {"env": {"CARGO_PROFILE_RELEASE_OPT_LEVEL": "s"}, "subdir": "opts"},
    "optz": {"env": {"CARGO_PROFILE_RELEASE_OPT_LEVEL": "z"}, "subdir": "optz"},
    "pabort": {"env": {"CARGO_PROFILE_RELEASE_PANIC": "abort"}, "subdir": "pabort"},
}
SWEEP = ("native", "bitmanip", "opts", "optz", "pabort")


def variant_sweep(res, fams, modes="base", kinds=None, names=SWEEP, promote=False):
    """the property on the code as other code-generation switches build it"""
    from concurrent.futures import ThreadPoolExecutor
    def build(n):
        v = VARIANTS[n]
        try:
            build_harness("release", v.get("rustflags", ""), v.get("env"), v.get("subdir"), v.get("features"))
        except ToolError:
            pass          # replay_step reports it (C13: violation; elsewhere: tool error)
    with ThreadPoolExecutor(max_workers=len(names)) as ex:
        list(ex.map(build, names))
    for n in names:
        for f in fams:
            replay_step(res, f, kinds=kinds, modes=modes, variant=VARIANTS[n], promote=promote)



def build_matrix(res, profiles=("release",)):
    """every supported combination of build switches: build a probe, compare the module
    that provides the scanners (hook H2) with Build.tla's prediction, and the probe's
    parse results with each other"""
    wd = os.path.join(WORK, "run", "%s-%s" % (res.prop, res.tier))
    r = tlc("Build", "SPECIFICATION Spec\n", wd, "build", workers=1, timeout=300)
    txt = open(r["out"], errors="replace").read()
    if "Assumption" in txt and "is false" in txt:
        raise ToolError("Build.tla: an ASSUME (ExactlyOneProvider / NoStdIsScalar) is false:\n" + r["tail"][-2000:])
    m = re.search(r'<<"PREDICTIONS", "(.*)">>', txt)
    if not m:
        raise ToolError("Build.tla printed no predictions:\n" + r["tail"][-2000:])
    preds = json.loads(m.group(1).replace('\\"', '"'))
    pred = {tuple(p[:5]): p[5] for p in preds}
    res.states += 256 * 4
    res.transitions += 256 * 4
    res.mc.append({"step": "build-lattice", "module": "Build", "combinations_checked_by_TLC": 2 ** 7 * 4, "predictions": len(pred)})
    probe = os.path.join(HARNESS, "probe")
    jobs = []
    for prof in profiles:
        for std in (1, 0):
            for dsimd in (0, 1):
                for dct in (0, 1):
                    for tf in ("", "+sse4.2", "+avx2", "+sse4.2,+avx2"):
                        jobs.append((prof, std, dsimd, dct, tf))
    results = {}
    procs = []

    def start(job):
        prof, std, dsimd, dct, tf = job
        tdir = os.path.join(probe, "target", "m_%s_%d%d%d_%s" % (prof, std, dsimd, dct, tf.replace("+", "").replace(",", "_").replace(".", "") or "none"))
        e = dict(os.environ, CARGO_NET_OFFLINE="true")
        e["RUSTFLAGS"] = "--cfg httparse_verif --check-cfg cfg(httparse_verif)" + ((" -C target-feature=" + tf) if tf else "")
        if dsimd:
            e["CARGO_CFG_HTTPARSE_DISABLE_SIMD"] = "1"
        if dct:
            e["CARGO_CFG_HTTPARSE_DISABLE_SIMD_COMPILETIME"] = "1"
        cmd = ["cargo", "build", "--offline", "--target-dir", tdir] + (["--release"] if prof == "release" else []) + ([] if std else ["--no-default-features"])
        return (subprocess.Popen(cmd, cwd=probe, env=e, stdout=subprocess.PIPE, stderr=subprocess.STDOUT, text=True), job, tdir)

    pending = list(jobs)
    running = []
    while pending or running:
        while pending and len(running) < 8:
            running.append(start(pending.pop(0)))
        pr, job, tdir = running.pop(0)
        out, _ = pr.communicate()
        prof, std, dsimd, dct, tf = job
        want = pred.get((std, dsimd, dct, 1 if "sse4.2" in tf or "avx2" in tf else 0, 1 if "avx2" in tf else 0))
        if pr.returncode != 0:
            msg = "build switch combination does not compile: std=%d DISABLE_SIMD=%d DISABLE_SIMD_COMPILETIME=%d target-feature=%r profile=%s" % (std, dsimd, dct, tf, prof)
            res.violation(msg, {"kind": "buildmatrix", "job": list(job), "key": "build:" + repr(job), "output": out[-1500:]})
        else:
            exe = os.path.join(tdir, "release" if prof == "release" else "debug", "probe")
            rr = subprocess.run([exe], capture_output=True, text=True, timeout=60)
            if rr.returncode != 0:
                res.violation("probe crashed in build variant %r" % (job,), {"kind": "buildmatrix", "job": list(job), "key": "probe:" + repr(job)})
            else:
                info = json.loads(rr.stdout.strip().splitlines()[-1])
                results[job] = info
                if info["provider"] != want:
                    res.violation("build variant std=%d DISABLE_SIMD=%d DISABLE_SIMD_COMPILETIME=%d target-feature=%r: scanners provided by `%s`, Build.tla predicts `%s`"
                                  % (std, dsimd, dct, tf, info["provider"], want), {"kind": "buildmatrix", "job": list(job), "key": "provider:" + repr(job)})
        shutil.rmtree(tdir, ignore_errors=True)
    sigs = {}
    for job, info in results.items():
        sigs.setdefault((info["req"], info["nheaders"], info["resp"]), []).append(job)
    if len(sigs) > 1:
        res.violation("build variants disagree on the result of the same parse: %s" % {str(k): len(v) for k, v in sigs.items()},
                      {"kind": "buildmatrix", "key": "probe-disagree", "sigs": {str(k): [list(j) for j in v][:4] for k, v in sigs.items()}})
    res.traces += len(results)
    res.evaluations += len(jobs)
    res.nontrivial += len(results)
    log("  [build] %d switch combinations built, providers %s" % (len(jobs), {p: sum(1 for i in results.values() if i["provider"] == p) for p in set(i["provider"] for i in results.values())}))
    res.extra["build_matrix"] = {"combinations_built": len(jobs), "ok": len(results),
                                 "providers": {p: sum(1 for i in results.values() if i["provider"] == p) for p in set(i["provider"] for i in results.values())}}
    res.samples.append({"build_variant": {"std": 1, "target_feature": "+avx2", "probe": next(iter(results.values()), None)}})


def race_traces(res, procs, threads=16):
    wd = os.path.join(WORK, "run", "%s-%s" % (res.prop, res.tier), "race")
    shutil.rmtree(wd, ignore_errors=True)
    os.makedirs(wd)
    bindir = build_harness("release")
    exe = os.path.join(bindir, "driver")
    files = []
    per = max(1, procs // NCPU)
    n = 0
    for i in range(NCPU):
        path = os.path.join(wd, "race.%d" % i)
        with open(path, "w") as f:
            for k in range(per):
                r = subprocess.run([exe, "race", "--threads", str(threads)], capture_output=True, text=True, timeout=60)
                if r.returncode != 0:
                    res.violation("cold-start race: the process crashed (rc=%d)" % r.returncode, {"kind": "race-crash", "key": "race-crash"})
                    continue
                f.write(r.stdout.strip().splitlines()[-1] + "\n")
                n += 1
        files.append(path)
    results = validate_traces(res, "race", "TraceRace", TRACE_CFG, files)
    raced = 0
    for path in files:
        for line in open(path):
            if line.count("[0,0]") > 1:
                raced += 1
    res.traces += n
    res.evaluations += n * threads
    res.nontrivial += raced
    res.extra["cold_starts"] = {"processes": n, "threads_each": threads, "with_a_real_race(>1 thread saw the empty cell)": raced}
    for tf, ok, idx, cnt, inv in results:
        if ok:
            continue
        ev = open(tf).read().splitlines()[idx - 1]
        res.violation("cold-start race trace not explainable by Runtime.tla (or threads disagree on the result): %s" % ev[:400],
                      {"kind": "race", "event": ev, "key": "race:" + ev[:200]})
    if len(res.samples) < 8:
        res.samples.append({"race_event": open(files[0]).readline()[:400]})
    shutil.rmtree(wd, ignore_errors=True)


def c13(res):
    t = res.tier
    for cpu in (1, 2, 3):
        mc_step(res, "runtime-race-cpu%d" % cpu, "Runtime",
                "SPECIFICATION RSpec\nCONSTANTS\n  Threads = %s\n  Calls = 2\n  Cpu = %d\nINVARIANT DispatchIsDetected CellIsZeroOrDetected AtDispatch\nCHECK_DEADLOCK FALSE\n"
                % (fam(t, "{1, 2, 3}", "{1, 2, 3, 4}"), cpu), workers=8)
    runtime_inductive(res)
    build_matrix(res, profiles=fam(t, ("release",), ("release", "debug")))
    race_traces(res, fam(t, 160, 2000))
    ambient_step(res, family="versions", modes="places")
    lf = fam(t, "lane_q", "lane_t")
    replay_step(res, lf, modes="alignall")
    replay_step(res, lf, modes="places", baseline=True)
    replay_step(res, "len_q", modes="places", baseline=True)
    if t == "thorough":
        replay_step(res, "byte_q", modes="base", baseline=True)
    for f in ("digits", "chunk_q", "ext_q", "code_q", "methods", "versions"):
        replay_step(res, f, modes="base", baseline=True)
        replay_step(res, f, modes="base", profile="dbgchk", promote=True)
    replay_step(res, "lane8_q", modes="places", baseline=True)
    replay_step(res, "lanetail_q", modes="straddleall", baseline=True)
    replay_step(res, "lanelong_q", modes="alignall", baseline=True)
    for b in (1, 2, 3):
        replay_step(res, "lanelong_q", modes="alignall", backend=b, promote=True)
        replay_step(res, "lanetail_q", modes="straddleall", backend=b, promote=True)
        replay_step(res, "lane8_q", modes="places", backend=b, promote=True)
        replay_step(res, lf, modes="places", backend=b, promote=True)
        replay_step(res, "len_q", modes="places", backend=b, profile="dbgchk", promote=True)
    replay_step(res, "lane_q", modes="giant", baseline=True)
    for b in (2, 3):
        replay_step(res, "lane_q", modes="giant", backend=b, promote=True)
    variant_sweep(res, [], names=SWEEP)          # builds the code-generation variants in parallel
    for name in ["sse42ct", "avx2ct", "nosimd", "noct", "nostd"] + list(SWEEP):
        replay_step(res, lf, modes="places", variant=VARIANTS[name], promote=True)
        replay_step(res, "lane8_q", modes="places", variant=VARIANTS[name], promote=True)
        if t == "thorough":
            replay_step(res, "byte_q", modes="base", variant=VARIANTS[name], promote=True)
            replay_step(res, "len_q", modes="places", variant=VARIANTS[name], profile="dbgchk", promote=True)
    if t == "thorough":
        replay_step(res, "byte_t", modes="alignall", kinds="0,1")


TRACE_CFG = "SPECIFICATION TSpec\nPOSTCONDITION Accepted\nCHECK_DEADLOCK FALSE\n"
TRACE_CFG_INV = "SPECIFICATION TSpec\nINVARIANT TraceInv\nPOSTCONDITION Accepted\nCHECK_DEADLOCK FALSE\n"
OPNAMES = {0: "new", 1: "peek", 2: "peek_ahead", 3: "peek_n", 4: "advance", 5: "slice", 6: "slice_skip", 7: "commit",
           8: "set_cursor", 9: "next", 11: "simd_load"}


def op_traces(res, count, backends=(None,), profile="release", only_props=("C01", "C04", "C20")):
    """cursor-operation logs of real calls, validated against Cursor.tla (TraceOps)"""
    wd = os.path.join(WORK, "run", "%s-%s" % (res.prop, res.tier), "ops")
    shutil.rmtree(wd, ignore_errors=True)
    os.makedirs(wd)
    fams = [families.family_file(f)[0] for f in ("byte_q", "lane_q", "len_q", "lines_q")]
    for b in backends:
        out = os.path.join(wd, "ops_b%s" % b)
        args = ["ops", "--out", out, "--count", str(count), "--shards", str(NCPU), "--seed", str(res.seed), "--stride", "211"] + fams
        if b is not None:
            args += ["--force-backend", str(b)]
        r = run_driver(args, profile=profile)
        if r.returncode != 0:
            # the code under test died while being traced
            res.violation("the code under test crashed while its cursor operations were traced (rc=%d)" % r.returncode,
                          {"kind": "optrace-crash", "key": "optrace-crash", "stderr": r.stderr[-500:]})
            continue
        info = json.loads(r.stdout.strip().splitlines()[-1])
        files = [out + ".%d" % i for i in range(NCPU)]
        results = validate_traces(res, "ops-backend-%s" % b, "TraceOps", TRACE_CFG_INV, files)
        res.traces += info["calls"]
        res.evaluations += info["events"]
        res.nontrivial += info["calls"]
        for tf, ok, idx, n, inv in results:
            if ok:
                continue
            sl, rel = trace_slice(tf, idx)
            ev = json.loads(sl[rel - 1]) if 0 < rel <= len(sl) else {}
            code = ev.get("code", -1)
            name = "nexts" if ev.get("ev") == "nexts" else OPNAMES.get(code, ev.get("ev", "?"))
            if ev.get("ev") == "ret" and ev.get("panicked"):
                prop, why = "C01", "the call panicked"
            elif code == 8:
                prop, why = "C20", "the cursor was moved backwards / outside its region (set_cursor)"
            elif code == 6 or code == 5:
                prop, why = "C04", "a slice was handed out beyond the committed distance (%s arg=%s with start=%s cursor=%s)" % (name, ev.get("arg"), ev.get("s"), ev.get("c"))
            else:
                prop, why = "C01", "cursor contract broken by `%s` (arg=%s) at start=%s cursor=%s end=%s" % (name, ev.get("arg", ev.get("n")), ev.get("s"), ev.get("c"), ev.get("e"))
            msg = "operation trace rejected by Cursor.tla at event %d: %s" % (idx, why)
            tags = {prop} | ({"C01"} if prop == "C04" else set())
            if res.prop in tags:
                res.violation(msg, {"kind": "optrace", "events": sl, "rejected_at": rel, "backend": b, "profile": profile})
            else:
                res.other_tags[prop] = res.other_tags.get(prop, 0) + 1
        if len(res.samples) < 8:
            res.samples.append({"op_trace_head": open(files[0]).read().splitlines()[:12]})
    shutil.rmtree(wd, ignore_errors=True)


def work_traces(res, sizes, backends=(None,)):
    wd = os.path.join(WORK, "run", "%s-%s" % (res.prop, res.tier), "work")
    shutil.rmtree(wd, ignore_errors=True)
    os.makedirs(wd)
    files = []
    calls = 0
    for b in backends:
        for sz in sizes:
            out = os.path.join(wd, "work_b%s_%d.ndjson" % (b, sz))
            args = ["work", "--out", out, "--sizes", str(sz)]
            if b is not None:
                args += ["--force-backend", str(b)]
            r = run_driver(args)
            if r.returncode != 0:
                res.violation("the code under test crashed on an adversarial input of %d bytes" % sz, {"kind": "work-crash", "key": "work-crash-%d" % sz})
                continue
            calls += json.loads(r.stdout.strip().splitlines()[-1])["calls"]
            files.append(out)
    results = validate_traces(res, "work", "TraceWork", TRACE_CFG, files)
    res.traces += calls
    res.evaluations += calls
    res.nontrivial += calls
    for tf, ok, idx, n, inv in results:
        if ok:
            continue
        ev = json.loads(open(tf).read().splitlines()[idx - 1])
        msg = ("work is not linear: len=%d travel=%d back=%d peeks=%d peek_bytes=%d (family %d, kind %d, cfg %d, cap %d)"
               % (ev["len"], ev["travel"], ev["back"], ev["peeks"], ev["peek_bytes"], ev["family"], ev["kind"], ev["cfg"], ev["cap"]))
        prop = "C01" if ev.get("panicked") else "C20"
        if prop == res.prop:
            res.violation(msg, {"kind": "work", "event": ev, "key": "work-%d-%d-%d-%d" % (ev["family"], ev["kind"], ev["cfg"], ev["len"])})
        else:
            res.other_tags[prop] = res.other_tags.get(prop, 0) + 1
    if files and len(res.samples) < 8:
        res.samples.append({"work_events": open(files[0]).read().splitlines()[:3]})
    shutil.rmtree(wd, ignore_errors=True)


FEED_CHECKS = {
    "C02": ["ConfPartialFields", "RecStable", "RecFieldsStable"],
    "C03": ["RecFramingC", "RecFraming"],
    "C04": ["RecSpans"],
    "C05": ["RecSpans", "RecHygiene"],
    "C06": ["ConfReqLine", "ConfFieldsReq"],
    "C07": ["ConfStatusLine", "ConfFieldsResp"],
    "C08": ["ConfHdrsDefault", "ConfHeadersDefault"],
    "C09": ["ConfChunk"],
    "C10": ["ConfErrKind"],
    "C11": ["ConfHonest"],
    "C14": ["ConfHdrsOptions", "ConfHeadersOptions"],
    "C17": ["ConfCapacity", "ConfHeaderCount"],
    "C01": ["NoPanic"],
}


def feed_traces(res, events, kinds="0,1,2,3", checks=None):
    """per-byte streaming traces of real results (harvested test inputs + random
    grammar-derived messages with mutations), validated by TLC against TraceFeed"""
    checks = checks or FEED_CHECKS[res.prop]
    wd = os.path.join(WORK, "run", "%s-%s" % (res.prop, res.tier), "feed")
    shutil.rmtree(wd, ignore_errors=True)
    os.makedirs(wd)
    out = os.path.join(wd, "feed")
    args = ["feed", "--out", out, "--events", str(events), "--shards", str(NCPU), "--seed", str(res.seed),
            "--kinds", kinds, "--harvest", families.harvest_file()]
    r = run_driver(args)
    if r.returncode != 0:
        res.violation("the code under test crashed while streaming traces were recorded (rc=%d)" % r.returncode,
                      {"kind": "feed-crash", "key": "feed-crash", "stderr": r.stderr[-500:]})
        return
    info = json.loads(r.stdout.strip().splitlines()[-1])
    files = [out + ".%d" % i for i in range(NCPU)]
    cfg = "SPECIFICATION TSpec\nCONSTANT CheckNames = {%s}\nPOSTCONDITION Accepted\nCHECK_DEADLOCK FALSE\n" % ", ".join('"%s"' % c for c in checks)
    wdt = os.path.join(WORK, "run", "%s-%s" % (res.prop, res.tier), "tlc-feed")
    results = validate_traces(res, "feed", "TraceFeed", cfg, files)
    res.traces += info["inputs"]
    res.evaluations += info["events"]
    res.nontrivial += info["inputs"]
    for tf, ok, idx, n, inv in results:
        if ok:
            continue
        # which check failed is printed by the trace specification
        sl, rel = trace_slice(tf, idx - 1 if idx > 1 else idx, start_ev=("reset",))
        ev = sl[rel - 1] if 0 < rel <= len(sl) else ""
        msg = "recorded streaming trace rejected by TraceFeed at event %d (checks %s): %s" % (idx - 1, ",".join(checks), ev[:300])
        res.violation(msg, {"kind": "feedtrace", "events": sl[:rel], "checks": checks, "key": "feed:" + ev[:200]})
    if len(res.samples) < 8:
        res.samples.append({"feed_trace_head": open(files[0]).read().splitlines()[:4]})
    shutil.rmtree(wd, ignore_errors=True)


def scan_cfg(mode, N="0", alpha="{}", lens="{}", pbytes="{}", qbytes="{}", fillers="{}", backends='{"swar8", "swar4"}'):
    return ("SPECIFICATION Spec\nCONSTANTS\n  Mode = \"%s\"\n  Alpha = %s\n  N = %s\n  Lens = %s\n  PBytes = %s\n  QBytes = %s\n"
            "  Fillers = %s\n  MCBackends = %s\nINVARIANT Exact Sound\nCHECK_DEADLOCK FALSE\n" % (mode, alpha, N, lens, pbytes, qbytes, fillers, backends))


ALLB = '{"swar8", "swar4", "sse42", "avx2", "neon"}'


def scan_traces(res, thorough=False, variant=None, label="scan", neon=False):
    wd = os.path.join(WORK, "run", "%s-%s" % (res.prop, res.tier), label)
    shutil.rmtree(wd, ignore_errors=True)
    os.makedirs(wd)
    out = os.path.join(wd, "scan")
    args = ["scan", "--out", out, "--shards", str(NCPU), "--seed", str(res.seed)] + (["--thorough"] if thorough else [])
    if neon:
        import neon as neonmod
        bindir = neonmod.build(os.path.join(WORK, "run", "%s-%s" % (res.prop, res.tier), "neon-src"))
        r = subprocess.run([os.path.join(bindir, "driver")] + args, capture_output=True, text=True, errors="replace", timeout=3000)
    else:
        r = run_driver(args, variant=variant, timeout=3000)
    if r.returncode != 0:
        res.violation("a scanner crashed while being driven directly (rc=%d): %s" % (r.returncode, r.stderr[-300:]),
                      {"kind": "scan-crash", "key": "scan-crash"})
        return
    info = json.loads(r.stdout.strip().splitlines()[-1])
    files = [out + ".%d" % i for i in range(NCPU)]
    results = validate_traces(res, label, "TraceScan", TRACE_CFG, files, timeout=3000, split=20000)
    res.traces += info["events"]
    res.evaluations += info["calls"]
    res.nontrivial += info["events"]
    res.extra.setdefault("scanner_backends_driven", {})[label] = {"backends": info["backends"], "provider": info["provider"], "calls": info["calls"]}
    names = {0: "selected provider (%s)" % info["provider"], 1: "swar", 2: "sse4.2", 3: "avx2"}
    for tf, ok, idx, n, inv in results:
        if ok:
            continue
        ev = json.loads(open(tf).read().splitlines()[idx - 1])
        if ev["ev"] == "scanw":
            msg = ("scanner %s, class %s: wrong stop offset on the bytes %s followed by one of the 256 byte values: runs %s"
                   % (names.get(ev["backend"]), ["target", "header value", "header name"][ev["cls"]], ev["pre"], ev["runs"]))
            res.violation(msg, {"kind": "scan", "event": ev, "variant": variant, "key": "scanw:%d:%d:%s" % (ev["backend"], ev["cls"], ev["pre"])})
            continue
        msg = ("scanner %s, class %s: wrong stop offset for a buffer of length %d with byte position %d (fill 0x%02x, align %s): runs %s"
               % (names.get(ev["backend"]), ["target", "header value", "header name"][ev["cls"]], ev["n"], ev["p"], ev["fill"], ev["align"], ev["runs"]))
        res.violation(msg, {"kind": "scan", "event": ev, "variant": variant, "key": "scan:%d:%d:%d:%d" % (ev["backend"], ev["cls"], ev["n"], ev["p"])})
    if len(res.samples) < 8:
        res.samples.append({"scan_events": open(files[0]).read().splitlines()[:2]})
    shutil.rmtree(wd, ignore_errors=True)


def c12(res):
    t = res.tier
    mc_step(res, "swar-exhaustive", "MCScan", scan_cfg("grow", N=fam(t, "7", "9"), alpha=fam(t, "{9, 32, 33, 127, 128}", "{9, 32, 33, 127, 128, 255}") if t == "quick" else "{9, 32, 33, 127, 128}"),
            workers=14, timeout=2400)
    mc_step(res, "lanes-all-backends", "MCScan",
            scan_cfg("struct", lens=fam(t, "{0, 1, 7, 8, 9, 15, 16, 17, 31, 32, 33, 47, 48, 49, 64, 65, 100}", "{" + ", ".join(str(i) for i in list(range(0, 50)) + [63, 64, 65, 66, 95, 96, 97, 100]) + "}"),
                     pbytes=fam(t, "{0, 9, 32, 33, 58, 96, 126, 127, 128, 255}", "{0, 9, 10, 13, 31, 32, 33, 34, 58, 64, 96, 126, 127, 128, 255}"),
                     qbytes=fam(t, "{}", "{127}"), fillers="{97, 9}", backends=ALLB), workers=14, timeout=6000)
    scan_traces(res, thorough=(t == "thorough"))
    scan_traces(res, thorough=(t == "thorough"), neon=True, label="scan-neon-emulated")
    if t == "thorough":
        scan_traces(res, thorough=False, variant={"rustflags": "-C target-feature=+sse4.2", "subdir": "sse42ct"}, label="scan-sse42ct")
        scan_traces(res, thorough=False, variant={"rustflags": "-C target-feature=+avx2", "subdir": "avx2ct"}, label="scan-avx2ct")


def session_traces(res, sessions):
    wd = os.path.join(WORK, "run", "%s-%s" % (res.prop, res.tier), "sess")
    shutil.rmtree(wd, ignore_errors=True)
    os.makedirs(wd)
    out = os.path.join(wd, "sess")
    r = run_driver(["session", "--out", out, "--sessions", str(sessions), "--shards", str(NCPU), "--seed", str(res.seed)])
    if r.returncode != 0:
        res.violation("the code under test crashed during a call history on a re-used value (rc=%d)" % r.returncode,
                      {"kind": "session-crash", "key": "session-crash", "stderr": r.stderr[-400:]})
        return
    info = json.loads(r.stdout.strip().splitlines()[-1])
    files = [out + ".%d" % i for i in range(NCPU)]
    results = validate_traces(res, "session", "TraceSession", TRACE_CFG, files, timeout=3000)
    res.traces += info["sessions"]
    res.evaluations += info["calls"]
    res.nontrivial += info["sessions"]
    for tf, ok, idx, n, inv in results:
        if ok:
            continue
        sl, rel = trace_slice(tf, idx, start_ev=("session",))
        ev = json.loads(sl[rel - 1]) if 0 < rel <= len(sl) else {}
        msg = ("call %d of a history on one re-used value does not behave like the same call on a fresh value of equal capacity "
               "(recorded: st=%s n=%s err=%s headers.len after=%s whole=%s; buffer %r)"
               % (rel - 1, ev.get("st"), ev.get("n"), ev.get("err"), ev.get("exp"), ev.get("whole"), bytes(ev.get("buf", []))[:80]))
        res.violation(msg, {"kind": "session", "events": sl[:rel], "key": "session:" + json.dumps(sl[:rel])[:300]})
    if len(res.samples) < 8:
        res.samples.append({"session_trace_head": open(files[0]).read().splitlines()[:3]})
    shutil.rmtree(wd, ignore_errors=True)


def config_traces(res, sessions):
    """the ParserConfig builder: Config.tla model-checked, recorded builder histories validated by TraceConfig"""
    mc_step(res, "config-builder", "MCConfig", "SPECIFICATION CSpec\nINVARIANT TypeOK\nPROPERTIES OneOptionPerStep CloneIndependent\nCHECK_DEADLOCK FALSE\n", workers=4)
    wd = os.path.join(WORK, "run", "%s-%s" % (res.prop, res.tier), "config")
    shutil.rmtree(wd, ignore_errors=True)
    os.makedirs(wd)
    out = os.path.join(wd, "cfg")
    r = run_driver(["config", "--out", out, "--sessions", str(sessions), "--shards", str(NCPU), "--seed", str(res.seed)])
    if r.returncode != 0:
        res.violation("the code under test crashed during a builder history (rc=%d)" % r.returncode,
                      {"kind": "config-crash", "key": "config-crash", "stderr": r.stderr[-400:]})
        return
    info = json.loads(r.stdout.strip().splitlines()[-1])
    files = [out + ".%d" % i for i in range(NCPU)]
    results = validate_traces(res, "config", "TraceConfig", TRACE_CFG, files, timeout=1200)
    res.traces += info["sessions"]
    res.evaluations += info["events"]
    res.nontrivial += info["sessions"]
    for tf, ok, idx, n, inv in results:
        if ok:
            continue
        sl, rel = trace_slice(tf, idx, start_ev=("history",))
        ev = json.loads(sl[rel - 1]) if 0 < rel <= len(sl) else {}
        msg = ("after this builder history the configuration does not hold the option set the setters describe: event %d (%s) "
               "is not what the specification computes for it (history: %s)" % (rel, json.dumps(ev)[:200], " ".join(
                   "%s%s" % (json.loads(x).get("ev"), (":%s=%s" % (json.loads(x).get("o"), json.loads(x).get("v"))) if json.loads(x).get("ev") in ("set", "get") else "") for x in sl[:rel])[:400]))
        res.violation(msg, {"kind": "config", "events": sl[:rel], "key": "config:" + json.dumps(sl[:rel])[:300]})
    if len(res.samples) < 8:
        res.samples.append({"config_trace_head": open(files[0]).read().splitlines()[:6]})
    shutil.rmtree(wd, ignore_errors=True)


def c18(res):
    t = res.tier
    for k in ("req", "resp"):
        mc_step(res, "histories-" + k, "MCSession",
                "SPECIFICATION Spec\nCONSTANTS\n  Depth = %s\n  PoolKind = \"%s\"\nINVARIANT HistoryIndependent ExposedLaw\nCHECK_DEADLOCK FALSE\n" % (fam(t, "3", "4"), k),
                workers=8)
    mc_head(res, "complete-determined", invs=["InvCompleteDetermined"], kinds='{"req", "resp"}', L="1", caps="{0, 1, 2, 100000}")
    for f in ("methods", "versions", "reasons", "ext_q", "dict_q"):
        replay_step(res, f, kinds="0,1", modes="entries")
    session_traces(res, fam(t, 12000, 60000))


def client_programs(res, count):
    """C04 static half: TLC enumerates client histories (Client.tla) with their class;
    each sampled history is rendered into a Rust program and judged by rustc against the
    working tree's crate: dangling => must be rejected by the borrow checker,
    disciplined => must compile."""
    import client, random
    from concurrent.futures import ThreadPoolExecutor
    ents = ", ".join('"%s"' % e for e in client.ENTRIES)
    flds = ", ".join('"%s"' % f for f in client.FIELDS)
    cfg = ("SPECIFICATION Spec\nCONSTANTS\n  MaxOps = %d\n  Entries = {%s}\n  Fields = {%s}\nINVARIANT Exclusive Emit\nPROPERTY Monotone\nCHECK_DEADLOCK FALSE\n"
           % (4, ents, flds))
    r = mc_step(res, "client-histories", "Client", cfg, workers=8, timeout=900)
    hs = []
    for line in open(r["out"], errors="replace"):
        if line.startswith('"{'):
            h = json.loads(json.loads(line))
            if h["class"] != "grey" and client.applicable(h["entry"], h["field"]) and len(h["ops"]) >= 1:
                hs.append(h)
    rng = random.Random(res.seed)
    rng.shuffle(hs)
    # stratify: every (entry, field, class) at least a few
    picked, seen = [], {}
    for h in hs:
        k = (h["entry"], h["field"], h["class"])
        if seen.get(k, 0) < max(2, count // 80):
            seen[k] = seen.get(k, 0) + 1
            picked.append(h)
        if len(picked) >= count:
            break
    bindir = build_harness("release")
    rlib = client.find_rlib(bindir)
    wd = os.path.join(WORK, "run", "%s-%s" % (res.prop, res.tier), "client")
    shutil.rmtree(wd, ignore_errors=True)
    os.makedirs(wd)

    def run(ij):
        i, h = ij
        return (h,) + client.compile_one((client.render(h), rlib, os.path.join(bindir, "deps"), wd, i))
    cnt = {}
    with ThreadPoolExecutor(NCPU) as ex:
        for h, ok, codes, msgs in ex.map(run, enumerate(picked)):
            cnt[(h["class"], ok)] = cnt.get((h["class"], ok), 0) + 1
            key = "client:%s:%s:%s" % (h["entry"], h["field"], ",".join(h["ops"]))
            if h["class"] == "dangling" and ok:
                res.violation("a program that keeps using a parsed field / value after its buffer or array is gone or mutated COMPILES: %s, field %s, ops %s"
                              % (h["entry"], h["field"], h["ops"]), {"kind": "client", "history": h, "program": client.render(h), "key": key})
            elif h["class"] == "dangling" and not (codes & client.BORROWCK):
                raise ToolError("client program rejected for a reason other than borrow checking (template broken?): %s %s %s" % (h, codes, msgs[:2]))
            elif h["class"] == "disciplined" and not ok:
                if codes & client.BORROWCK:
                    res.violation("a disciplined usage pattern no longer compiles (%s): %s, field %s, ops %s" % (sorted(codes), h["entry"], h["field"], h["ops"]),
                                  {"kind": "client", "history": h, "program": client.render(h), "key": key})
                else:
                    raise ToolError("disciplined client program fails to compile for a non-borrow reason: %s %s %s" % (h, codes, msgs[:2]))
    res.traces += len(picked)
    res.evaluations += len(picked)
    res.nontrivial += len(picked)
    res.extra["client_programs"] = {"histories_enumerated_by_TLC": len(hs), "compiled": len(picked),
                                    "dangling_rejected": cnt.get(("dangling", False), 0), "disciplined_accepted": cnt.get(("disciplined", True), 0)}
    if picked:
        res.samples.append({"client_history": picked[0], "program": client.render(picked[0])})
    log("  [rustc] %d client programs: %s" % (len(picked), {"%s/%s" % (k[0], "compiles" if k[1] else "rejected"): v for k, v in cnt.items()}))
    shutil.rmtree(wd, ignore_errors=True)


PARSER_CFGS = [
    # (label, alphabet, kind, option bits, capacity, prefix set)
    ("req-line", "{10, 13, 32, 47, 71, 69, 84, 80, 79, 83, 72, 49, 46, 1, 200}", "req", 0, 100000, "start"),
    ("req-line-multispace", "{10, 13, 32, 47, 71, 69, 84, 80, 72, 49, 46, 1, 200}", "req", 1, 100000, "start"),
    ("status-line", "{10, 13, 32, 72, 84, 80, 47, 49, 46, 48, 50, 9, 1, 200, 65}", "resp", 2, 100000, "start"),
    ("resp-headers-all-options", "{0, 1, 9, 10, 13, 32, 58, 97, 127, 200}", "resp", 94, 1, "hdr"),
    ("resp-headers-default", "{0, 1, 9, 10, 13, 32, 58, 97, 127, 200}", "resp", 0, 100000, "hdr"),
    ("req-headers-options", "{0, 1, 9, 10, 13, 32, 58, 97, 127, 200}", "req", 49, 0, "hdr"),
    ("header-block", "{0, 1, 9, 10, 13, 32, 58, 97, 127, 200}", "hdrs", 0, 2, "hdr"),
    ("chunk-size", "{0, 9, 10, 13, 32, 48, 57, 59, 65, 70, 71, 97, 102, 120}", "chunk", 0, 0, "start"),
]


def parser_refinement(res, n, which=None):
    """Parser.tla (the algorithm at cursor-operation granularity) refines Head.tla, keeps the cursor
    contract, terminates, and never travels further than the buffer is long"""
    for label, alpha, kind, bits, cap, pset in PARSER_CFGS:
        if which and label not in which:
            continue
        cfg = ("SPECIFICATION Spec\nCONSTANTS\n  Alpha = %s\n  N = %s\n  PKind = \"%s\"\n  PCfgBits = %d\n  PCap = %d\n  PrefixSet = \"%s\"\n"
               "INVARIANT Refines CursorInv\nPROPERTY Terminates\nCHECK_DEADLOCK FALSE\n" % (alpha, n, kind, bits, cap, pset))
        mc_step(res, "parser-" + label, "MCParser", cfg, workers=12, timeout=3000)


def cursor_inductive(res):
    apalache_step(res, "cursor-base", "ApaCursor", "CInit", "IndInv", length=0)
    apalache_step(res, "cursor-step", "ApaCursor", "IndInit", "IndInv", length=1)
    apalache_step(res, "cursor-reads-inside", "ApaCursor", "IndInit", "ReadsInside", length=1)


def runtime_inductive(res):
    """the backend cell for an unbounded number of calls (Apalache, inductive)"""
    apalache_step(res, "runtime-base", "ApaRuntime", "RInit", "IndInv", length=0)
    apalache_step(res, "runtime-step", "ApaRuntime", "IndInit", "IndInv", length=1)
    apalache_step(res, "runtime-dispatch", "ApaRuntime", "IndInit", "DispatchIsDetected", length=1)
    apalache_step(res, "runtime-control", "ApaRuntime", "IndInit", "IndInv", nxt="NextBroken", length=1, expect_violation=True)


CALL_PARTS = {
    "C01": ('{}', "{0, 1, 2, 3}"),
    "C03": ('{"n", "twin"}', "{0, 1, 2, 3}"),
    "C04": ('{"twin", "st"}', "{0, 1, 2}"),
    "C06": ('{"st", "fields", "twin"}', "{0}"),
    "C07": ('{"st", "fields", "twin"}', "{1}"),
    "C08": ('{"st", "headers", "twin"}', "{0, 1, 2}"),
    "C09": ('{"st", "n", "digits"}', "{3}"),
    "C10": ('{"err"}', "{0, 1, 2}"),
    "C11": ('{"st"}', "{0, 1, 2, 3}"),
    "C15": ('{"st", "n", "count"}', "{0, 1}"),
    "C14": ('{"st", "headers"}', "{0, 1}"),
    "C16": ('{"entries", "st", "count"}', "{0, 1, 2}"),
    "C17": ('{"st", "count", "err", "slots"}', "{0, 1, 2}"),
    "C19": ('{"allocs"}', "{0, 1, 2, 3}"),
}


def call_traces(res):
    """long inputs (4..70 KiB, up to 300 header lines): one recorded call per input, validated by TraceCall"""
    parts, kinds = CALL_PARTS[res.prop]
    wd = os.path.join(WORK, "run", "%s-%s" % (res.prop, res.tier), "call")
    shutil.rmtree(wd, ignore_errors=True)
    os.makedirs(wd)
    out = os.path.join(wd, "call")
    r = run_driver(["call", "--out", out, "--shards", str(NCPU), "--seed", str(res.seed)] + (["--thorough"] if res.tier == "thorough" else []))
    if r.returncode != 0:
        res.violation("the code under test crashed on a long input (rc=%d)" % r.returncode, {"kind": "call-crash", "key": "call-crash", "stderr": r.stderr[-400:]})
        return
    info = json.loads(r.stdout.strip().splitlines()[-1])
    res.extra["twins_over_4GiB"] = {"checked": info.get("twins_checked", 0), "skipped_no_memfd": info.get("twins_skipped", 0)}
    if "twin" in parts:
        # the lemma that licenses the comparison of the > 4 GiB input with its small twin
        mc_step(res, "pumping-lemma", "Pump", families.SKEL_CFG.replace("INVARIANT Emit EmitLabels HonestPartial DeferredClosed Labelled", "INVARIANT PumpLemma PumpNonVacuous"), workers=4)
    files = [out + ".%d" % i for i in range(NCPU)]
    cfg = "SPECIFICATION TSpec\nCONSTANTS\n  Parts = %s\n  JKinds = %s\nPOSTCONDITION Accepted\nCHECK_DEADLOCK FALSE\n" % (parts, kinds)
    results = validate_traces(res, "call", "TraceCall", cfg, files)
    res.traces += info["calls"]
    res.evaluations += info["bytes"]
    res.nontrivial += info["calls"]
    res.extra["long_inputs"] = info
    for tf, ok, idx, n, inv in results:
        if ok:
            continue
        lines = open(tf).read().splitlines()
        ev = json.loads(lines[idx - 1])
        k = idx - 2
        nb = 0
        while k >= 0 and json.loads(lines[k]).get("ev") != "begin":
            nb += len(json.loads(lines[k]).get("b", []))
            k -= 1
        beg = json.loads(lines[k]) if k >= 0 else {}
        msg = ("long input (%d bytes, kind %s, option bits %s, capacity %s): the recorded result st=%s n=%s err=%s (%d headers) is not the automaton's (judged parts %s)"
               % (nb, beg.get("kind"), beg.get("cfg"), beg.get("cap"), ev.get("st"), ev.get("n"), ev.get("err"), len(ev.get("h", [])), parts))
        if ev.get("twin") == 0 and "twin" in parts:
            msg = ("the same input with its long field pumped to 2^32+5 bytes (aliased mapping; kind %s, option bits %s) does not give the result of the %d-byte twin "
                   "shifted by the extra length, as the pumping lemma of the automaton (spec/Pump.tla) requires: a length, offset or count is not carried in 64 bits"
                   % (beg.get("kind"), beg.get("cfg"), nb))
        res.violation(msg, {"kind": "call", "begin": beg, "end": ev, "bytes": nb, "key": "call:%s:%s:%s:%d" % (beg.get("kind"), beg.get("cfg"), beg.get("cap"), nb)})
    shutil.rmtree(wd, ignore_errors=True)


def c20(res):
    t = res.tier
    cursor_inductive(res)
    mc_step(res, "cursor-contract", "MCCursor", "SPECIFICATION MCSpecC\nCONSTANT MaxLen = %s\nINVARIANT IndInv\nPROPERTY Forward\nCHECK_DEADLOCK FALSE\n" % fam(t, "6", "9"), workers=4)
    parser_refinement(res, fam(t, "3", "4"), which=fam(t, ("req-line", "resp-headers-all-options", "chunk-size"), None))
    work_traces(res, fam(t, [4096, 65536], [4096, 65536, 1048576]), backends=fam(t, (None,), (None, 2, 3)))
    op_traces(res, fam(t, 4000, 40000), backends=fam(t, (None,), (None, 2, 3)))


PLANS = {"C01": c01, "C02": c02, "C03": c03, "C04": c04, "C05": c05, "C06": c06, "C07": c07, "C08": c08, "C09": c09,
         "C10": c10, "C11": c11, "C13": c13, "C14": c14, "C15": c15, "C16": c16, "C17": c17, "C12": c12, "C18": c18, "C19": c19, "C20": c20}
LEVEL = {p: "model_checking" for p in PLANS}
LEVEL["C19"] = "other"


def describe(pid):
    return LEVEL.get(pid, "model_checking"), RULE_VEC, [A_SPEC, A_BOUND, A_OBS]


def replay_special(res, obj):
    """Cases that are not single vectors (trace slices, scan events, client programs, build variants):
    re-run the property's plan with the recorded seed and tier and look for the same case again."""
    import engine as eng
    res2 = eng.Result(res.prop, obj.get("tier", "quick"), int(obj.get("seed", 0)))
    PLANS[res.prop](res2)
    key = obj.get("key")
    same = [v for v in res2.violations if (v["replay"].get("key") == key and key is not None) or v["replay"].get("kind") == obj.get("kind")]
    if same:
        for v in same[:3]:
            log("VIOLATION property=%s replay=%s" % (res.prop, obj.get("_path", "")))
            log("  " + v["msg"])
        return 1
    log("replay: the recorded case no longer violates %s" % res.prop)
    return 0
