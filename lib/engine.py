"""Runs the steps of a property check and turns the outcome into the interface
the task fixes: evidence file, VIOLATION / KNOWN-FINDING lines, exit code."""
import json, os, re, shutil, subprocess, sys, time
from common import *
import families


class Result:
    def __init__(self, prop, tier, seed):
        self.prop, self.tier, self.seed = prop, tier, seed
        self.t0 = time.time()
        self.states = 0            # TLC distinct states over all model-checking steps
        self.transitions = 0       # TLC generated states (= transitions taken)
        self.mc = []               # per-step summaries
        self.replays = []          # per replay summaries
        self.traces = 0            # behaviours / traces bound to the implementation
        self.evaluations = 0
        self.nontrivial = 0
        self.samples = []
        self.violations = []       # dicts: msg, replay object
        self.other_tags = {}
        self.drift = 0
        self.notes = []
        self.assumptions = []
        self.extra = {}

    def violation(self, msg, replay_obj):
        self.violations.append({"msg": msg, "replay": replay_obj})


def mc_step(res, label, module, cfg_text, workers=8, timeout=900, env=None, coverage=False, simulate=None):
    wd = os.path.join(WORK, "run", "%s-%s" % (res.prop, res.tier))
    r = tlc(module, cfg_text, wd, label, workers=workers, timeout=timeout, env=env, coverage=coverage, simulate=simulate)
    if r["violation"]:
        # an invariant of the specification failing is a defect of the model, not of the code
        raise ToolError("specification check %s (%s): %s violated\n%s" % (label, module, r["violation"], r["tail"][-3000:]))
    res.states += r["distinct"]
    res.transitions += r["states"]
    item = {"step": label, "module": module, "distinct_states": r["distinct"], "states_generated": r["states"],
            "wall_s": round(r["wall_s"], 1)}
    if coverage:
        cov = tlc_coverage(r["out"])
        item["action_coverage"] = {k: v[1] for k, v in cov.items()}
    res.mc.append(item)
    log("  [mc] %-18s %-8s distinct=%d generated=%d %.0fs" % (label, module, r["distinct"], r["states"], r["wall_s"]))
    return r


MEMCHECK = ["valgrind", "-q", "--error-exitcode=0", "--undef-value-errors=no", "--num-callers=6"]


def _run_replayer(bindir, args, files, timeout, run_env=None, wrapper=None):
    env = dict(os.environ, VERIF_CLASSES=families.classes_file())
    env.update(run_env or {})
    cmd = (wrapper or []) + [os.path.join(bindir, "replayer")] + args + files
    try:
        r = subprocess.run(cmd, capture_output=True, text=True, errors="replace", timeout=timeout, env=env)
    except subprocess.TimeoutExpired:
        raise ToolError("replayer timeout: " + " ".join(cmd))
    return r


def memcheck_step(res, fams, backends=(None, 2), parts=12, stride=1):
    """the replayer under valgrind memcheck, every vector in an exact-size heap block: an access
    outside the caller's buffer that stays inside mapped memory (never faults, changes no result)
    is visible only to a memory checker.  The family is split over `parts` processes."""
    import itertools
    from concurrent.futures import ThreadPoolExecutor
    bindir = build_harness("release")
    wd = os.path.join(WORK, "run", "%s-%s" % (res.prop, res.tier), "memcheck")
    shutil.rmtree(wd, ignore_errors=True)
    os.makedirs(wd)
    total = 0
    for f in fams:
        path, meta = families.family_file(f)
        outs = [open(os.path.join(wd, "%s.%d.vec" % (f, i)), "w") for i in range(parts)]
        with open(path) as fh:
            for i, line in enumerate(fh):
                if i % stride == 0:
                    outs[(i // stride) % parts].write(line)
        for o in outs:
            o.close()
        for b in backends:
            args = ["--mode", "heap", "--threads", "1"] + (["--force-backend", str(b)] if b is not None else [])
            t0 = time.time()
            def one(i):
                return _run_replayer(bindir, args, [os.path.join(wd, "%s.%d.vec" % (f, i))], 1800, wrapper=MEMCHECK)
            with ThreadPoolExecutor(max_workers=parts) as ex:
                rs = list(ex.map(one, range(parts)))
            nvec = 0
            nmis = 0
            for r in rs:
                if r.returncode in (70, 71):
                    res.violation("the code under test crashed or hung under the memory checker (%s, backend %s)" % (f, b),
                                  {"kind": "memcheck-crash", "key": "memcheck-crash:%s:%s" % (f, b), "stderr": r.stderr[-600:]})
                    continue
                if r.returncode != 0:
                    raise ToolError("replayer under valgrind failed rc=%d:\n%s" % (r.returncode, r.stderr[-2000:]))
                for line in r.stdout.splitlines():
                    if line.startswith("SUMMARY "):
                        sm = json.loads(line[8:])
                        nvec += sm["vectors"]
                        res.evaluations += sm["observations"]
                    elif line.startswith("MISMATCH "):
                        m = json.loads(line[9:])
                        nmis += 1
                        if m["prop"] == res.prop:
                            res.violation("%s [%s, %s; memcheck, backend %s]" % (m["msg"], m["entry"], m["context"], b),
                                          {"kind": "vector", "family": f, "modes": "heap", "backend": b, "vector": m["vector"], "memcheck": True,
                                           "msg": m["msg"], "entry": m["entry"], "context": m["context"],
                                           "valgrind": "\n".join(l for l in r.stderr.splitlines() if l.startswith("=="))[:1500]})
                        else:
                            res.other_tags[m["prop"]] = res.other_tags.get(m["prop"], 0) + 1
            total += nvec
            res.traces += nvec
            res.replays.append({"step": "memcheck/%s/backend%s" % (f, b), "vectors": nvec, "mismatches": nmis, "wall_s": round(time.time() - t0, 1),
                                "tool": "valgrind memcheck, exact-size heap blocks, all entry points"})
            log("  [memcheck] %-30s backend=%s vectors=%d mismatches=%d %.0fs" % (f, b, nvec, nmis, time.time() - t0))
    if total == 0:
        raise ToolError("memcheck step replayed nothing")
    shutil.rmtree(wd, ignore_errors=True)


def replay_step(res, family, kinds=None, modes="base", profile="release", backend=None, threads=None,
                variant=None, timeout=3000, files=None, label=None, big=False, baseline=False, promote=False, run_env=None, memcheck=False):
    """Replay a cached family through the real parser.  variant = dict(extra_rustflags, env, subdir, features)"""
    if files is None:
        path, meta = families.family_file(family)
        files = [path]
    variant = variant or {}
    try:
        bindir = build_harness(profile, variant.get("rustflags", ""), variant.get("env"), variant.get("subdir"), variant.get("features"))
    except ToolError as e:
        # the reference build works but this switch combination does not compile: that is what
        # C13 ("every supported combination of build switches compiles") is about
        if variant and res.prop == "C13":
            build_harness("release")
            res.violation("build variant %s does not compile: %s" % (variant.get("subdir"), str(e)[-600:]),
                          {"kind": "variant-build", "variant": variant, "key": "variant-build:%s" % variant.get("subdir")})
            return None
        raise
    args = ["--mode", modes, "--threads", str(threads or NCPU)]
    if kinds:
        args += ["--kinds", kinds]
    if backend is not None:
        args += ["--force-backend", str(backend)]
    if big:
        args += ["--big"]
    if "giant" in modes:
        # a call that reads on through the gigabytes behind the head returns after seconds, not
        # microseconds; the replayer reports that itself (and stops the mode) - the watchdog must
        # not kill the process first
        args += ["--hang-secs", "180"]
    hdir = os.path.join(WORK, "run", "%s-%s" % (res.prop, res.tier), "hashes")
    os.makedirs(hdir, exist_ok=True)
    res.hash_files = getattr(res, "hash_files", [])
    hf = os.path.join(hdir, "h%d.bin" % len(res.hash_files))
    res.hash_files.append(hf)
    args += ["--hashes", hf]
    t0 = time.time()
    r = _run_replayer(bindir, args, files, timeout, run_env, wrapper=MEMCHECK if memcheck else None)
    lab = label or ("%s/%s/%s%s%s" % (family, modes, profile, "/backend%s" % backend if backend is not None else "", "/" + variant["subdir"] if variant.get("subdir") else ""))
    ctx = {"family": family, "kinds": kinds, "modes": modes, "profile": profile, "backend": backend, "variant": variant, "run_env": run_env}
    if r.returncode in (70, 71):
        what = "crashed" if r.returncode == 70 else "hung"
        cands = [l.split(" ", 1)[1] for l in r.stderr.splitlines() if l.startswith("CRASH-CANDIDATE ") or l.startswith("HANG-CANDIDATE ")]
        confirmed = []
        for c in cands:
            tmp = os.path.join(WORK, "run", "cand.vec")
            os.makedirs(os.path.dirname(tmp), exist_ok=True)
            open(tmp, "w").write(c.strip().strip('"') + "\n")
            r2 = _run_replayer(bindir, args[:2] + ["--threads", "1"] + args[4:], [tmp], 120, run_env)
            if r2.returncode in (70, 71):
                confirmed.append(c.strip().strip('"'))
        if not confirmed:
            raise ToolError("replayer %s (%s) but no candidate reproduces alone:\n%s" % (what, lab, r.stderr[-2000:]))
        for c in confirmed[:5]:
            res.violation_c01 = True
            res.other_tags["C01"] = res.other_tags.get("C01", 0) + 1
            if res.prop == "C01":
                res.violation("the code under test %s on this input (%s)" % (what, lab), dict(ctx, kind="vector", vector=c, outcome=what))
        res.replays.append({"step": lab, "outcome": what, "candidates": len(cands), "confirmed": len(confirmed)})
        log("  [replay] %-40s %s; %d confirmed" % (lab, what.upper(), len(confirmed)))
        return None
    if r.returncode != 0:
        raise ToolError("replayer failed rc=%d (%s):\n%s" % (r.returncode, lab, r.stderr[-3000:]))
    summ = None
    mism = []
    for line in r.stdout.splitlines():
        if line.startswith("SUMMARY "):
            summ = json.loads(line[8:])
        elif line.startswith("MISMATCH "):
            mism.append(json.loads(line[9:]))
    if summ is None:
        raise ToolError("replayer printed no summary (%s):\n%s" % (lab, r.stderr[-2000:]))
    if summ["unparsed_lines"]:
        raise ToolError("replayer could not parse %d vector lines (%s)" % (summ["unparsed_lines"], lab))
    res.traces += summ["vectors"]
    res.evaluations += summ["observations"]
    res.vector_runs = getattr(res, "vector_runs", 0) + summ["nontrivial"]
    res.drift += summ["drift"]
    for s in summ["samples"]:
        if len(res.samples) < 8:
            res.samples.append({"family": family, "vector": s})
    for t, n in summ["tags"].items():
        if t != res.prop:
            res.other_tags[t] = res.other_tags.get(t, 0) + n
    bkey = (family, kinds, modes)
    if baseline:
        # disagreements with the specification that the reference build shows as well
        res.baseline_mismatches = getattr(res, "baseline_mismatches", set()) | {(m["vector"], m["prop"]) for m in mism}
        res.baseline_digest = getattr(res, "baseline_digest", {})
        res.baseline_digest[bkey] = (summ["mismatch_digest"], dict(summ["tags"]))
    if promote:
        # this run differs from the reference build only in backend / build variant / profile.
        # Same family, same mode, same expansions: if the set of disagreements with the
        # specification is the same as in the reference build (order-independent digest over ALL
        # mismatches, not only the listed ones), nothing depends on the difference.  Otherwise the
        # listed disagreements the reference build does not show are dependences of the result on
        # backend / build variant / profile.
        bd = getattr(res, "baseline_digest", {}).get(bkey)
        if bd is None or bd[0] != summ["mismatch_digest"]:
            base = getattr(res, "baseline_mismatches", set())
            for m in list(mism):
                if m["prop"] != res.prop and m["prop"] not in ("C19",) and (m["vector"], m["prop"]) not in base:
                    m2 = dict(m, prop=res.prop, msg="only in this backend/build variant (%s): %s" % (lab, m["msg"]))
                    mism.append(m2)
                    summ["tags"][res.prop] = summ["tags"].get(res.prop, 0) + 1
            if bd is not None and not any(m["prop"] == res.prop for m in mism):
                # the sets differ but the difference is beyond the listed mismatches
                extra = {t: n - bd[1].get(t, 0) for t, n in summ["tags"].items() if n != bd[1].get(t, 0)}
                if extra:
                    mism.append({"prop": res.prop, "msg": "disagreements with the specification differ from the reference build (%s): %s" % (lab, extra),
                                 "entry": "", "context": lab, "vector": mism[0]["vector"] if mism else ""})
                    summ["tags"][res.prop] = summ["tags"].get(res.prop, 0) + 1
    mine = [m for m in mism if m["prop"] == res.prop]
    for m in mine[:20]:
        res.violation("%s [%s, %s]" % (m["msg"], m["entry"], m["context"]),
                      dict(ctx, kind="vector", vector=m["vector"], entry=m["entry"], context=m["context"], msg=m["msg"]))
    if summ["tags"].get(res.prop, 0) > len(mine):
        res.notes.append("%d further mismatches of this property in %s not listed" % (summ["tags"][res.prop] - len(mine), lab))
    res.replays.append({"step": lab, "vectors": summ["vectors"], "observations": summ["observations"],
                        "by_kind_verdict": summ["by_kind_verdict"], "by_phase": summ["by_phase"], "by_err": summ["by_err"],
                        "max_len": summ["max_len"], "mismatches_this_property": summ["tags"].get(res.prop, 0),
                        "completions_run": summ["completions_run"], "extensions_run": summ["extensions_run"],
                        "cfg_expansions": summ["cfg_expansions"], "entry_expansions": summ["entry_expansions"],
                        "placements": summ["placements"], "embed_run": summ["embed_run"], "caplaw_run": summ["caplaw_run"],
                        "provider": summ["provider"], "backend": summ["backend"], "debug_assertions": summ["debug_assertions"],
                        "drift": summ["drift"], "wall_s": round(time.time() - t0, 1)})
    if summ["drift_samples"]:
        res.extra.setdefault("drift_samples", summ["drift_samples"][:3])
    log("  [replay] %-40s vectors=%d obs=%d mismatches(%s)=%d %.0fs" % (lab, summ["vectors"], summ["observations"], res.prop, summ["tags"].get(res.prop, 0), time.time() - t0))
    return summ


def finish(res, level, level_rule, assumptions):
    known = load_known()
    # distinct non-trivial vectors over all replay steps of this run (same vector replayed in
    # several modes / profiles / backends counts once), measured from 64-bit hashes
    hfs = [f for f in getattr(res, "hash_files", []) if os.path.exists(f)]
    if hfs:
        try:
            bindir = build_harness("release")
            out = subprocess.run([os.path.join(bindir, "replayer"), "--merge"] + hfs, capture_output=True, text=True, timeout=600).stdout.strip()
            res.nontrivial += int(out)
            res.extra["distinct_vectors"] = int(out)
            res.extra["vector_replays_total"] = getattr(res, "vector_runs", 0)
        except Exception as e:
            res.notes.append("distinct count failed: %s" % e)
        shutil.rmtree(os.path.dirname(hfs[0]), ignore_errors=True)
    wall = time.time() - res.t0
    new = []
    for v in res.violations:
        key = v["replay"].get("vector") or v["replay"].get("key") or v["msg"]
        hit = None
        for k in known.get("findings", []):
            if k["property"] == res.prop and k["key"] == key:
                hit = k
        if hit:
            log("KNOWN-FINDING: property=%s %s" % (res.prop, hit["what"]))
        else:
            new.append(v)
    cov = {"states": max(res.states, 0), "transitions": max(res.transitions, 0),
           "traces_validated_against_impl": res.traces,
           "evaluations": max(res.evaluations, res.traces, 1), "distinct_nontrivial": max(res.nontrivial, 0),
           "rule": level_rule, "samples": res.samples[:8] or [{"note": "no sample recorded"}],
           "model_checking_steps": res.mc, "replay_steps": res.replays,
           "other_property_mismatches_seen": res.other_tags, "drift_lines": res.drift, "notes": res.notes}
    if level == "other":
        cov["explanation"] = ("the specification contributes outcome coverage (TLC skeleton: one witness per abstract automaton state, "
                              "every verdict and error kind); the judgement is a counting global allocator around every replayed call "
                              "(%d calls, all outcomes listed under replay_steps) and an allocator-less no_std link" % res.evaluations)
    # vacuity guard: a check whose vectors never showed one of the three verdicts, or whose
    # replay steps bound nothing to the code, has not exercised its property
    if res.replays:
        agg = {}
        for r in res.replays:
            for k, v in (r.get("by_kind_verdict") or {}).items():
                agg[k.split(":")[1]] = agg.get(k.split(":")[1], 0) + v
        cov["verdicts_exercised"] = agg
        if any(agg.get(x, 0) == 0 for x in ("P", "C", "E")) and not res.violations:
            raise ToolError("vacuous run: the replayed vectors of %s did not cover all three verdicts: %s" % (res.prop, agg))
    try:
        _p, sm = families.seeds_file()
        acts = sm.get("abstract_states_per_action", {})
        cov["skeleton"] = {"abstract_states": sm.get("abstract_states"), "abstract_states_per_grammar_element": acts,
                           "note": "every abstract state is a seed of the BYTE family (all 256 byte values fed from it)"}
        missing = [a for a in ("LeadingEmptyLine", "MethodByte", "MethodEnd", "DelimSpaces", "TargetByte", "TargetEnd", "VersionByte",
                               "ReqLineEnd", "RespSpace", "CodeDigit", "AfterCode", "ReasonByte", "ReasonEnd", "HdrLineStart", "HdrNameByte",
                               "HdrColon", "HdrNameWs", "HdrOws", "HdrEmptyValueEol", "HdrValueByte", "HdrValueEol", "FoldDecision",
                               "StoreHeader", "TooMany", "IgnoreByte", "IgnoreEol", "HeadEnd", "Reject", "ChunkDigit", "ChunkLws",
                               "ChunkExtStart", "ChunkExtByte", "ChunkCr", "ChunkEnd") if acts and acts.get(a, 0) == 0]
        if missing:
            raise ToolError("vacuous skeleton: grammar elements never exercised: %s" % missing)
    except ToolError:
        raise
    except Exception as e:
        res.notes.append("skeleton coverage unavailable: %s" % e)
    cov.update(res.extra)
    write_evidence(res.prop, res.tier, res.seed, level, cov, wall, len(new), assumptions + res.assumptions)
    if res.drift:
        log("DRIFT: %d observation(s) differ from the implementation-shaped expectations of the specification (not a property violation)" % res.drift)
    if new:
        for v in new[:10]:
            p = write_replay(res.prop, dict(v["replay"], property=res.prop, message=v["msg"], seed=res.seed, tier=res.tier))
            log("VIOLATION property=%s replay=%s" % (res.prop, p))
            log("  " + v["msg"])
        return 1
    log("OK property=%s tier=%s states=%d bound=%d wall=%.0fs" % (res.prop, res.tier, res.states, res.traces, wall))
    return 0


# ------------------------------------------------------------------ trace validation
def run_driver(args, profile="release", variant=None, timeout=1200, bin="driver"):
    variant = variant or {}
    bindir = build_harness(profile, variant.get("rustflags", ""), variant.get("env"), variant.get("subdir"), variant.get("features"))
    env = dict(os.environ, VERIF_CLASSES=families.classes_file())
    try:
        r = subprocess.run([os.path.join(bindir, bin)] + args, capture_output=True, text=True, timeout=timeout, env=env)
    except subprocess.TimeoutExpired:
        raise ToolError("driver timeout: " + " ".join(args))
    return r


def validate_traces(res, label, module, cfg_text, trace_files, timeout=1200, extra_env=None, split=None):
    """One single-worker TLC per trace file, 16 at a time.  Returns list of
    (file, accepted, reject_index, events, failed_invariant).
    split=N: the events of the trace are independent of each other (scanner events); files are cut
    into pieces of N lines (TLC's cost per event grows with the size of the file it has loaded)."""
    from concurrent.futures import ThreadPoolExecutor
    wd = os.path.join(WORK, "run", "%s-%s" % (res.prop, res.tier), "tlc-" + label)
    shutil.rmtree(wd, ignore_errors=True)
    os.makedirs(wd)
    cfg = os.path.join(wd, "trace.cfg")
    open(cfg, "w").write(cfg_text)
    if split:
        pieces = []
        for tf in trace_files:
            k = 0
            out = None
            with open(tf) as fh:
                for i, line in enumerate(fh):
                    if i % split == 0:
                        if out:
                            out.close()
                        pp = os.path.join(wd, "%s.p%d" % (os.path.basename(tf), k))
                        out = open(pp, "w")
                        pieces.append(pp)
                        k += 1
                    out.write(line)
            if out:
                out.close()
        trace_files = pieces
    t0 = time.time()

    def one(args):
        i, tf = args
        outp = os.path.join(wd, "t%d.out" % i)
        e = dict(os.environ, TRACE=tf,
                 JAVA_TOOL_OPTIONS="-Xss256m -XX:ParallelGCThreads=2 -Xmx3g -Dtlc2.tool.queue.IStateQueue=StateDeque")
        if extra_env:
            e.update(extra_env)
        # (-checkpoint 0: the depth-first StateDeque queue cannot be checkpointed, and TLC would try after 30 min)
        cmd = ["timeout", str(timeout), "tlc", "-workers", "1", "-checkpoint", "0", "-metadir", os.path.join(wd, "md%d" % i), "-cleanup",
               "-noGenerateSpecTE", "-config", cfg, os.path.join(SPEC, module + ".tla")]
        with open(outp, "w") as out:
            rc = subprocess.run(cmd, stdout=out, stderr=subprocess.STDOUT, env=e, cwd=wd).returncode
        shutil.rmtree(os.path.join(wd, "md%d" % i), ignore_errors=True)
        return rc, tf, i

    with ThreadPoolExecutor(max_workers=NCPU) as ex:
        done = list(ex.map(one, list(enumerate(trace_files))))
    results = []
    for rc, tf, i in done:
        text = open(os.path.join(wd, "t%d.out" % i), errors="replace").read()
        m = TLC_STATS.search(text)
        states = int(m.group(2)) if m else 0
        gen = int(m.group(1)) if m else 0
        res.states += states
        res.transitions += gen
        if "No error has been found" in text and "REJECT" not in text:
            results.append((tf, True, None, states - 1, ""))
            continue
        m = re.search(r'<<"REJECT", (\d+), (\d+)>>', text)
        if m:
            results.append((tf, False, int(m.group(1)), int(m.group(2)), ""))
            continue
        m2 = re.search(r"Invariant (\w+) is violated", text)
        if m2:
            # an invariant evaluated on the recorded behaviour failed: the state number is the event index
            results.append((tf, False, max(states, 1), states, m2.group(1)))
            continue
        raise ToolError("trace validation %s/%s failed to run (rc=%s):\n%s" % (label, os.path.basename(tf), rc, text[-2500:]))
    acc = sum(1 for r in results if r[1])
    ev = sum(r[3] for r in results)
    res.mc.append({"step": label, "module": module, "trace_files": len(trace_files), "accepted": acc, "events": ev,
                   "wall_s": round(time.time() - t0, 1)})
    log("  [trace] %-18s %-12s files=%d accepted=%d events=%d %.0fs" % (label, module, len(trace_files), acc, ev, time.time() - t0))
    if acc == len(results):
        shutil.rmtree(wd, ignore_errors=True)      # (kept when something was rejected: the caller reads the piece)
    return results


def trace_slice(path, idx, start_ev=("call", "reset", "session")):
    """the block of events (from the last block-start event up to idx) around a rejected event"""
    lines = open(path).read().splitlines()
    idx = min(idx, len(lines))
    lo = idx - 1
    while lo > 0:
        try:
            if json.loads(lines[lo]).get("ev") in start_ev:
                break
        except Exception:
            pass
        lo -= 1
    hi = idx
    while hi < len(lines):
        try:
            if json.loads(lines[hi]).get("ev") in start_ev:
                break
        except Exception:
            pass
        hi += 1
    return lines[lo:hi], idx - lo


# ------------------------------------------------------------------ Apalache
def apalache_step(res, label, module, init, inv, nxt="Next", length=1, expect_violation=False, timeout=600):
    """symbolic check (unbounded integers) of an inductive invariant; the obligations go into the evidence"""
    wd = os.path.join(WORK, "run", "%s-%s" % (res.prop, res.tier), "apa-" + label)
    shutil.rmtree(wd, ignore_errors=True)
    os.makedirs(wd)
    t0 = time.time()
    cmd = ["timeout", str(timeout), "apalache-mc", "check", "--init=" + init, "--inv=" + inv, "--next=" + nxt,
           "--length=%d" % length, "--out-dir=" + wd, os.path.join(SPEC, module + ".tla")]
    r = subprocess.run(cmd, capture_output=True, text=True, errors="replace", cwd=wd)
    out = r.stdout + r.stderr
    ok = "EXITCODE: OK" in out
    violated = "invariant 0 violated" in out or "violation1" in out
    shutil.rmtree(wd, ignore_errors=True)
    if not ok and not violated:
        raise ToolError("apalache failed on %s (%s):\n%s" % (module, label, out[-2000:]))
    if expect_violation != violated:
        raise ToolError("apalache: %s %s %s unexpectedly %s" % (module, init, inv, "violated" if violated else "holds"))
    res.mc.append({"step": "apalache-" + label, "module": module, "init": init, "inv": inv, "next": nxt, "length": length,
                   "outcome": "refuted (as it must be)" if violated else "holds", "wall_s": round(time.time() - t0, 1)})
    res.extra["apalache_obligations"] = res.extra.get("apalache_obligations", 0) + 1
    log("  [apalache] %-22s %s /\\ %s => %s' : %s (%.0fs)" % (label, init, nxt, inv, "refuted, as expected" if violated else "holds", time.time() - t0))
