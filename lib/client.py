"""C04 static half: render Client.tla histories into Rust programs and let rustc judge them."""
import glob, json, os, shutil, subprocess, random
from concurrent.futures import ThreadPoolExecutor
from common import *

BORROWCK = {"E0499", "E0502", "E0503", "E0505", "E0506", "E0597", "E0716", "E0713", "E0521", "E0515"}

ENTRIES = {
    # name: (kind, uninit, call template)
    "Request::parse": ("req", False, "let _st = val.parse(&buf);"),
    "ParserConfig::parse_request": ("req", False, "let _st = cfg.parse_request(&mut val, &buf);"),
    "Request::parse_with_uninit_headers": ("req", True, "let _st = val.parse_with_uninit_headers(&buf, &mut arr);"),
    "ParserConfig::parse_request_with_uninit_headers": ("req", True, "let _st = cfg.parse_request_with_uninit_headers(&mut val, &buf, &mut arr);"),
    "Response::parse": ("resp", False, "let _st = val.parse(&buf);"),
    "ParserConfig::parse_response": ("resp", False, "let _st = cfg.parse_response(&mut val, &buf);"),
    "ParserConfig::parse_response_with_uninit_headers": ("resp", True, "let _st = cfg.parse_response_with_uninit_headers(&mut val, &buf, &mut arr);"),
    "parse_headers": ("hdrs", False, "let (_n, val) = match httparse::parse_headers(&buf, &mut arr) { Ok(httparse::Status::Complete(x)) => x, _ => return };"),
}
FIELDS = {
    "method": {"req": "let fld = val.method.unwrap();"},
    "path": {"req": "let fld = val.path.unwrap();"},
    "reason": {"resp": "let fld = val.reason.unwrap();"},
    "header_name": {"req": "let fld = val.headers[0].name;", "resp": "let fld = val.headers[0].name;", "hdrs": "let fld = val[0].name;"},
    "header_value": {"req": "let fld = val.headers[0].value;", "resp": "let fld = val.headers[0].value;", "hdrs": "let fld = val[0].value;"},
}


def applicable(entry, field):
    return ENTRIES[entry][0] in FIELDS[field]


def render(h):
    kind, uninit, call = ENTRIES[h["entry"]]
    L = ["#![allow(unused, unused_mut, unused_variables)]", "use core::mem::MaybeUninit;", "fn main() {",
         "    let cfg = httparse::ParserConfig::default();"]
    msg = {"req": 'b"GET /x HTTP/1.1\\r\\nA: b\\r\\n\\r\\n"', "resp": 'b"HTTP/1.1 200 OK\\r\\nA: b\\r\\n\\r\\n"', "hdrs": 'b"A: b\\r\\n\\r\\n"'}[kind]
    L.append("    let mut buf: Vec<u8> = %s.to_vec();" % msg)
    if uninit:
        L.append("    let mut arr: Vec<MaybeUninit<httparse::Header>> = (0..4).map(|_| MaybeUninit::uninit()).collect();")
        L.append("    let mut empty: [httparse::Header; 0] = [];")
        new = "&mut empty"
    else:
        L.append("    let mut arr: Vec<httparse::Header> = vec![httparse::EMPTY_HEADER; 4];")
        new = "&mut arr"
    if kind == "req":
        L.append("    let mut val = httparse::Request::new(%s);" % new)
    elif kind == "resp":
        L.append("    let mut val = httparse::Response::new(%s);" % new)
    L.append("    " + call)
    for o in h["ops"]:
        if o == "Extract":
            L.append("    " + FIELDS[h["field"]][kind])
        elif o == "UseFld":
            L.append('    println!("{:?}", fld);')
        elif o == "UseVal":
            L.append('    println!("{:?}", %s);' % ("val" if kind == "hdrs" else "val.headers"))
        elif o == "DropBuf":
            L.append("    drop(buf);")
        elif o == "MutBuf":
            L.append("    buf[0] = b'X';")
        elif o == "DropArr":
            L.append("    drop(arr);")
        elif o == "MutArr":
            L.append("    arr[0] = %s;" % ("MaybeUninit::uninit()" if uninit else "httparse::EMPTY_HEADER"))
        elif o == "ReadArr":
            L.append("    let _r = arr.len();" if uninit else '    println!("{:?}", arr[0]);')
    L.append("}")
    return "\n".join(L) + "\n"


def find_rlib(bindir):
    c = sorted(glob.glob(os.path.join(bindir, "deps", "libhttparse-*.rlib")), key=os.path.getmtime)
    if not c:
        raise ToolError("no httparse rlib under " + bindir)
    return c[-1]


def compile_one(args):
    src, rlib, deps, wd, idx = args
    p = os.path.join(wd, "p%d.rs" % idx)
    open(p, "w").write(src)
    r = subprocess.run(["rustc", "--edition", "2021", "--emit=metadata", "--error-format=json", "--extern", "httparse=" + rlib,
                        "-L", "dependency=" + deps, "-o", os.path.join(wd, "p%d.rmeta" % idx), p],
                       capture_output=True, text=True, timeout=120)
    codes = set()
    msgs = []
    for line in r.stderr.splitlines():
        try:
            d = json.loads(line)
        except Exception:
            continue
        if d.get("level") == "error":
            if d.get("code"):
                codes.add(d["code"]["code"])
            msgs.append(d.get("message", ""))
    return r.returncode == 0, codes, msgs
