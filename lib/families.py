"""Vector families: TLC generator configurations, sharded generation, cache.

Vectors depend only on the specification, so generated files are cached under
work/cache/<spec-hash>/ and re-used by every check; everything that touches
/repo is rebuilt and re-run on every invocation."""
import os, shutil, subprocess, time, json
from common import *

ALPHA11 = "{0, 1, 9, 10, 13, 32, 34, 58, 97, 127, 200}"
ALPHA17 = "{0, 1, 9, 10, 13, 32, 34, 47, 49, 58, 59, 72, 97, 103, 127, 128, 200}"
CHUNK14 = "{0, 9, 10, 13, 32, 48, 57, 59, 65, 70, 71, 97, 102, 120}"
LANE14 = "{0, 9, 10, 13, 31, 32, 33, 58, 59, 97, 126, 127, 128, 255}"
ALLK = '{"req", "resp", "hdrs", "chunk"}'


def gen_cfg(family, caps="{1, 100000}", kinds=ALLK, maxlen=100000, phases="{}", cfgs="{}",
            follow="{}", alpha="{}", L="0", lanebytes="{}", fillmode="ascii", lanetail=0):
    return dict(Family='"%s"' % family, SeedCaps=caps, SeedKinds=kinds, SeedMaxLen=str(maxlen),
                SeedPhases=phases, SeedCfgs=cfgs, Follow=follow, Alpha=alpha, L=L, LaneBytes=lanebytes,
                FillMode='"%s"' % fillmode, LaneTail=str(lanetail))


# name -> (constants, shards, workers-per-shard, simulate)
FAMILIES = {
    # ---------------- quick tier
    "byte_q": (gen_cfg("BYTE", follow="{10, 32}"), 8, 2),
    "ext_q": (gen_cfg("EXT", alpha=ALPHA11, L="2"), 4, 3),
    "lane_q": (gen_cfg("LANE", caps="{100000}", follow="{10}", L="66", lanebytes=LANE14), 4, 3),
    # the same with a filler of high bytes (valid UTF-8): neighbours >= 0x80 next to the byte under test
    "lane8_q": (gen_cfg("LANE", caps="{100000}", follow="{10, 32}", L="42", lanebytes=LANE14, fillmode="utf8",
                        phases='{"TARGET", "VALUE", "REASON", "EXT", "IGN"}'), 4, 3),
    # the byte under test followed by 40 more bytes: a full vector block is still available after it
    "lanetail_q": (gen_cfg("LANE", caps="{100000}", follow="{10}", L="40", lanebytes=LANE14, lanetail=40,
                           phases='{"TARGET", "VALUE", "REASON", "NAME", "EXT", "IGN", "OWS"}'), 4, 3),
    # fields longer than four vector widths, with a forbidden byte at every offset (code that
    # unrolls its scanner by 64 / 128 bytes, or takes a different path for aligned addresses)
    "lanelong_q": (gen_cfg("LANE", caps="{100000}", follow="{10}", L="150", lanebytes="{0, 9, 32, 127}", lanetail=0,
                           phases='{"TARGET", "VALUE", "REASON", "NAME"}', cfgs="{0}"), 4, 3),
    # long whitespace runs inside and at the end of values and reasons
    "lanews_q": (gen_cfg("LANE", caps="{1, 100000}", follow="{10, 13}", L="70", lanebytes="{9, 10, 13, 32, 97, 127}", fillmode="ws",
                         phases='{"VALUE", "REASON"}'), 2, 4),
    "len_q": (gen_cfg("LANE", caps="{100000}", follow="{10}", L="100", lanebytes="{10, 13, 32, 58}"), 4, 3),
    "chunk_q": (gen_cfg("EXT", kinds='{"chunk"}', maxlen=0, alpha=CHUNK14, L="5"), 1, 12),
    "digits": (gen_cfg("SEQ", kinds='{"chunk"}', maxlen=0, L='"DIGITS"'), 1, 4),
    "code_q": (gen_cfg("SEQ", caps="{100000}", kinds='{"resp"}', maxlen=0, cfgs="{0, 2}", L='"CODE"'), 1, 8),
    "lines_q": (gen_cfg("SEQ", caps="{0, 1, 2}", kinds='{"req", "resp", "hdrs"}', phases='{"HLINE"}', L='"LINES"'), 8, 2),
    "methods": (gen_cfg("SEQ", caps="{1, 100000}", kinds='{"req"}', maxlen=0, L='"METHODS"'), 2, 4),
    # all 256 byte values (and a follow-up byte) at DEEP positions: resume contexts are long random
    # walks instead of the shortest witnesses
    "deep_q": (gen_cfg("BYTE", caps="{0, 1, 2, 100000}", follow="{10, 32}"), 4, 3, None, {"seeds_from": "walk_q", "stride": 601, "minlen": 40}),
    "deep_t": (gen_cfg("BYTE", caps="{0, 1, 2, 100000}", follow="{10, 13, 32, 58, 97}"), 8, 2, None, {"seeds_from": "walk_t", "stride": 301, "minlen": 40}),
    "walk_q": (gen_cfg("WALK", caps="{1, 100000}", L="200"), 1, 8, "num=1500 -depth 220 -seed 11"),
    "walk_t": (gen_cfg("WALK", caps="{0, 1, 2, 100000}", L="400"), 1, 12, "num=4000 -depth 420 -seed 12"),
    "reasons": (gen_cfg("SEQ", caps="{100000}", kinds='{"resp"}', maxlen=0, cfgs="{0, 2}", L='"REASONS"'), 2, 4),
    "dict_q": (gen_cfg("SEQ", caps="{1, 100000}", kinds='{"req", "resp", "hdrs"}', phases='{"HLINE"}', cfgs="{0, 49, 94}", maxlen=20, L='"DICT"'), 4, 3),
    "prefaces": (gen_cfg("SEQ", caps="{1, 100000}", kinds='{"req", "resp"}', maxlen=0, cfgs="{0, 1, 2}", L='"PREFACES"'), 1, 4),
    # punctuation that opens a nested syntax somewhere else (quoted strings, escapes, comments,
    # parameter lists): every string of up to four such bytes inside every kind of field
    "punct_q": (gen_cfg("EXT", caps="{100000}", alpha="{34, 92, 40, 41, 44, 61, 59, 39, 97, 13, 10}", L="4",
                        phases='{"TARGET", "VALUE", "REASON", "NAME", "EXT", "IGN", "OWS", "SIZE"}', cfgs="{0, 49, 94}"), 8, 2),
    # every pattern of blanks and `!` (the lowest visible byte) of up to 9 bytes at the end of a
    # header value, then the end of the head: trailing-whitespace trims
    "trim_q": (gen_cfg("EXT", caps="{100000}", alpha="{32, 33, 10}", L="11", kinds='{"hdrs", "resp"}',
                       phases='{"VALUE"}', cfgs="{0, 8}"), 4, 3),
    # multi-byte look-alikes of white space / line ends / NUL from every abstract state
    "unispace": (gen_cfg("SEQ", caps="{1, 100000}", maxlen=100000, L='"UNISPACE"'), 8, 2),
    # long fields of 4-byte / 3-byte UTF-8 characters whose lead byte visits every block offset
    "laneu4_q": (gen_cfg("LANE", caps="{100000}", follow="{10}", L="330", lanebytes="{10, 32, 127}", fillmode="utf84",
                         phases='{"TARGET", "VALUE", "REASON"}', cfgs="{0}"), 4, 3),
    "laneu3_q": (gen_cfg("LANE", caps="{100000}", follow="{10}", L="330", lanebytes="{10, 32, 127}", fillmode="utf83",
                         phases='{"TARGET", "VALUE", "REASON"}', cfgs="{0}"), 4, 3),
    "versions": (gen_cfg("SEQ", caps="{100000}", kinds='{"req", "resp"}', maxlen=0, cfgs="{0, 1, 2}", L='"VERSIONS"'), 2, 4),
    # ---------------- thorough tier
    "byte_t": (gen_cfg("BYTE", caps="{0, 1, 2, 100000}", follow="{10, 13, 32, 58, 97}"), 8, 2),
    "ext_t": (gen_cfg("EXT", caps="{0, 1, 2, 100000}", alpha=ALPHA11, L="3"), 8, 2),
    "ext17_t": (gen_cfg("EXT", caps="{100000}", alpha=ALPHA17, L="2"), 8, 2),
    "lane_t": (gen_cfg("LANE", caps="{100000}", follow="{10, 32}", L="70", lanebytes="{" + ", ".join(str(i) for i in range(256)) + "}"), 8, 2),
    "lane8_t": (gen_cfg("LANE", caps="{100000}", follow="{10, 32}", L="70", lanebytes="{" + ", ".join(str(i) for i in range(256)) + "}", fillmode="utf8",
                        phases='{"TARGET", "VALUE", "REASON", "EXT", "IGN"}'), 8, 2),
    "len_t": (gen_cfg("LANE", caps="{1, 100000}", follow="{10, 97}", L="100", lanebytes="{9, 10, 13, 32, 58}"), 8, 2),
    "chunk_t": (gen_cfg("EXT", kinds='{"chunk"}', maxlen=0, alpha=CHUNK14, L="6"), 1, 14),
    "code_t": (gen_cfg("SEQ", caps="{100000}", kinds='{"resp"}', maxlen=0, L='"CODE"'), 4, 3),
    "lines_t": (gen_cfg("SEQ", caps="{0, 1, 2}", kinds='{"req", "resp", "hdrs"}', phases='{"HLINE"}', cfgs="{0, 2, 49, 94}", maxlen=20, L='"LINES5"'), 8, 2),
    "hdrext_t": (gen_cfg("EXT", caps="{1, 100000}", kinds='{"resp", "hdrs"}', phases='{"HLINE", "NAME", "OWS", "VALUE", "IGN", "FOLD_V", "FOLD_E"}', cfgs="{0, 8, 64, 92, 94}", alpha=ALPHA11, L="4"), 8, 2),
}

SKEL_CFG = """SPECIFICATION Spec
CONSTANTS
  Alphabet = {0, 1, 9, 10, 13, 32, 34, 58, 59, 65, 97, 103, 127, 128, 195, 224, 237, 240, 244, 255, 72, 84, 80, 47, 49, 46, 48, 50}
  SKinds = {"req", "resp", "hdrs", "chunk"}
  Caps = {0, 1, 2, 100000}
INVARIANT Emit EmitLabels HonestPartial DeferredClosed Labelled
VIEW Abs
CHECK_DEADLOCK FALSE
"""


def cache_dir():
    h = spec_hash()
    d = os.path.join(CACHE, h)
    if not os.path.isdir(d):
        os.makedirs(d, exist_ok=True)
        # vectors of older specification versions are useless: reclaim the space
        for x in os.listdir(CACHE):
            if x != h and os.path.isdir(os.path.join(CACHE, x)):
                shutil.rmtree(os.path.join(CACHE, x), ignore_errors=True)
    return d


def _strip_to(src, dst):
    """keep only vector lines, without TLC's surrounding quotes"""
    n = 0
    with open(src, errors="replace") as f, open(dst, "w") as g:
        for line in f:
            if line.startswith('"['):
                g.write(line.rstrip()[1:-1] + "\n")
                n += 1
    return n


def classes_file():
    p = os.path.join(cache_dir(), "classes.json")
    if not os.path.exists(p):
        wd = os.path.join(WORK, "gen", "classes")
        r = tlc("Classes", "SPECIFICATION Spec\n", wd, "classes", workers=1, timeout=120)
        n = _strip_to(r["out"], p + ".tmp")
        if n != 1:
            raise ToolError("class table generation failed:\n" + r["tail"][-1500:])
        os.replace(p + ".tmp", p)
    return p


def seeds_file():
    """Stage A: the skeleton; also model-checks HonestPartial/DeferredClosed on every abstract state."""
    d = cache_dir()
    p = os.path.join(d, "seeds.ndjson")
    meta = os.path.join(d, "seeds.meta.json")
    if not os.path.exists(p) or not os.path.exists(meta):
        wd = os.path.join(WORK, "gen", "skel")
        r = tlc("Skel", SKEL_CFG, wd, "skel", workers=8, timeout=900)
        if r["violation"]:
            raise ToolError("skeleton run reports %s violated:\n%s" % (r["violation"], r["tail"][-3000:]))
        n = _strip_to(r["out"], p + ".tmp")
        if n < 1000:
            raise ToolError("skeleton produced only %d seeds:\n%s" % (n, r["tail"][-2000:]))
        os.replace(p + ".tmp", p)
        labels = {}
        for line in open(r["out"], errors="replace"):
            if line.startswith('<<"LABELS", '):
                for lab in json.loads(json.loads(line[len('<<"LABELS", '):].rstrip()[:-2])):
                    labels[lab] = labels.get(lab, 0) + 1
        json.dump({"abstract_states": r["distinct"], "generated": r["states"], "seeds": n, "wall_s": r["wall_s"],
                   "abstract_states_per_action": labels}, open(meta, "w"))
    return p, json.load(open(meta))


def cfg_text(consts, mod, rem):
    lines = ["SPECIFICATION Spec", "CONSTANTS"]
    for k, v in consts.items():
        lines.append("  %s = %s" % (k, v))
    lines.append("  SeedMod = %d" % mod)
    lines.append("  SeedRem = %d" % rem)
    lines += ["INVARIANT Emit", "CHECK_DEADLOCK FALSE", ""]
    return "\n".join(lines)


def family_file(name, timeout=3000):
    """Generate (or fetch from cache) the vector file of a family.  Returns (path, meta)."""
    d = cache_dir()
    p = os.path.join(d, name + ".vec")
    meta = os.path.join(d, name + ".meta.json")
    consts, shards, workers = FAMILIES[name][:3]
    simulate = FAMILIES[name][3] if len(FAMILIES[name]) > 3 else None
    derived = FAMILIES[name][4] if len(FAMILIES[name]) > 4 else None
    if os.path.exists(p) and os.path.exists(meta):
        m = json.load(open(meta))
        if m.get("constants") == consts:
            return p, m
    seeds, _ = seeds_file()
    wd = os.path.join(WORK, "gen", name)
    shutil.rmtree(wd, ignore_errors=True)
    os.makedirs(wd)
    if derived:
        # seeds = [kind, cfg, cap, buf, phase] of sampled vectors of another family
        src, _m = family_file(derived["seeds_from"])
        seeds = os.path.join(wd, "seeds.ndjson")
        n = 0
        with open(src) as f, open(seeds, "w") as g:
            for i, line in enumerate(f):
                if i % derived["stride"]:
                    continue
                v = json.loads(line)
                if len(v[3]) >= derived["minlen"] and v[4] == 0:
                    g.write(json.dumps([v[0], v[1], v[2], v[3], v[15]]) + "\n")
                    n += 1
        if n < 10:
            raise ToolError("derived seeds for %s: only %d" % (name, n))
    t0 = time.time()
    procs = []
    for r in range(shards):
        cfg = os.path.join(wd, "s%d.cfg" % r)
        open(cfg, "w").write(cfg_text(consts, shards, r))
        out = open(os.path.join(wd, "s%d.out" % r), "w")
        md = os.path.join(wd, "md%d" % r)
        e = dict(os.environ, SEEDS=seeds, JAVA_TOOL_OPTIONS="-Xss512m -XX:ParallelGCThreads=2 -Xmx6g")
        cmd = ["timeout", str(timeout), "tlc", "-workers", str(workers)] + (["-simulate"] + simulate.split() if simulate else []) + [
               "-metadir", md, "-cleanup", "-noGenerateSpecTE", "-config", cfg, os.path.join(SPEC, "Gen.tla")]
        procs.append((subprocess.Popen(cmd, stdout=out, stderr=subprocess.STDOUT, env=e, cwd=wd), out, r))
    states = 0
    for pr, out, r in procs:
        rc = pr.wait()
        out.close()
    n = 0
    with open(p + ".tmp", "w") as g:
        for r in range(shards):
            src = os.path.join(wd, "s%d.out" % r)
            ok = False
            with open(src, errors="replace") as f:
                for line in f:
                    if line.startswith('"['):
                        g.write(line.rstrip()[1:-1] + "\n")
                        n += 1
                    elif "Model checking completed. No error has been found." in line or (simulate and line.startswith("Finished in")):
                        ok = True
                    else:
                        m = TLC_STATS.search(line)
                        if m:
                            states += int(m.group(2))
            if not ok:
                tail = subprocess.run("grep -v '^\"\\[' %s | tail -30" % src, shell=True, capture_output=True, text=True).stdout
                raise ToolError("generator %s shard %d did not complete:\n%s" % (name, r, tail))
    os.replace(p + ".tmp", p)
    m = {"family": name, "vectors": n, "tlc_distinct_states": states, "wall_s": round(time.time() - t0, 1),
         "constants": consts, "shards": shards}
    json.dump(m, open(meta, "w"))
    shutil.rmtree(wd, ignore_errors=True)
    return p, m


def harvest_file():
    """Buffers the repository's own test suite hands to the parser (hook H1 harvest sink):
    the pinned suite is built and run once with the guard on; corpus only, no verdicts."""
    p = os.path.join(CACHE, "harvest.txt")
    if os.path.exists(p) and os.path.getsize(p) > 1000:
        return p
    tmp = p + ".tmp"
    if os.path.exists(tmp):
        os.remove(tmp)
    tdir = os.path.join(HARNESS, "target", "harvest")
    e = {"HTTPARSE_VERIF_HARVEST": tmp, "RUSTFLAGS": "--cfg httparse_verif", "CARGO_NET_OFFLINE": "true"}
    r = sh(["cargo", "test", "--offline", "--release", "--target-dir", tdir], cwd=REPO, env=e, timeout=1500, check=False)
    if not os.path.exists(tmp):
        open(tmp, "w").write("")
    lines = sorted(set(open(tmp).read().split()))
    open(p, "w").write("\n".join(lines) + "\n")
    os.remove(tmp)
    shutil.rmtree(tdir, ignore_errors=True)
    return p
