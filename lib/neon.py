"""C12, NEON: run the crate's src/simd/neon.rs on this x86-64 host by swapping its
`core::arch::aarch64` import for the software model harness/neon-emu/emu.rs.  The crate
sources are copied from /repo's working tree on every run; a patch that no longer applies
is a tool error, not a verdict."""
import os, shutil
from common import *

EMU = os.path.join(HARNESS, "neon-emu")


def prepare(workdir):
    """returns the directory of a harness manifest that builds against the NEON-emulation copy"""
    emu = os.path.join(workdir, "httparse-neon-emu")
    shutil.rmtree(emu, ignore_errors=True)
    os.makedirs(os.path.join(emu, "src", "simd"))
    for f in ("lib.rs", "iter.rs", "macros.rs", "verif.rs"):
        shutil.copy(os.path.join(REPO, "src", f), os.path.join(emu, "src", f))
    shutil.copy(os.path.join(REPO, "src", "simd", "swar.rs"), os.path.join(emu, "src", "simd", "swar.rs"))
    neon = open(os.path.join(REPO, "src", "simd", "neon.rs")).read()
    imp = "use core::arch::aarch64::*;"
    if neon.count(imp) != 1:
        raise ToolError("neon.rs no longer has exactly one `%s` line: the emulation patch does not apply" % imp)
    open(os.path.join(emu, "src", "simd", "neon.rs"), "w").write(neon.replace(imp, "use crate::simd::emu::*;"))
    shutil.copy(os.path.join(EMU, "emu.rs"), os.path.join(emu, "src", "simd", "emu.rs"))
    shutil.copy(os.path.join(EMU, "mod.rs"), os.path.join(emu, "src", "simd", "mod.rs"))
    # the emulated loads report to the operation log like the x86 loads do (hook H4 analogue)
    v = open(os.path.join(emu, "src", "verif.rs")).read()
    v += "\n/// emulated NEON 16-byte load (emulation build only)\npub fn neon_load(_ptr: usize, _w: usize) {}\n"
    open(os.path.join(emu, "src", "verif.rs"), "w").write(v)
    shutil.copy(os.path.join(EMU, "Cargo.toml.in"), os.path.join(emu, "Cargo.toml"))
    hd = os.path.join(workdir, "harness-neon")
    shutil.rmtree(hd, ignore_errors=True)
    os.makedirs(os.path.join(hd, ".cargo"))
    open(os.path.join(hd, "Cargo.toml"), "w").write(open(os.path.join(EMU, "harness.Cargo.toml.in")).read().replace("@EMU@", emu))
    shutil.copy(os.path.join(HARNESS, "Cargo.lock"), os.path.join(hd, "Cargo.lock"))
    shutil.copy(os.path.join(HARNESS, ".cargo", "config.toml"), os.path.join(hd, ".cargo", "config.toml"))
    return hd


def build(workdir, profile="release"):
    hd = prepare(workdir)
    tdir = os.path.join(HARNESS, "target", "neon-emu")
    r = sh(["cargo", "build", "--offline", "--profile", profile, "--target-dir", tdir], cwd=hd,
           env={"CARGO_NET_OFFLINE": "true"}, timeout=1200, check=False)
    if r.returncode != 0:
        raise ToolError("NEON-emulation build failed (emulation no longer matches the intrinsics neon.rs uses?):\n" + (r.stdout or "")[-3000:])
    return os.path.join(tdir, "release" if profile == "release" else profile)
